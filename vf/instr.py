"""
Source-free hooks into the repository's own Python code: a sys.monitoring LINE monitor that
is enabled *locally* on every code object whose file lies under <repo>/windpyutils.

One callback serves
  * step budgets      (bounded-progress oracle for "terminates" claims of sequential code),
  * coverage          (which statements of the anchored functions a run really executed),
  * the switch log    (which thread ran which statement in which global order),
  * delay plans       (schedule perturbation: park role R at statement S, k-th time, for t seconds),
  * failpoint plans   (raise an exception at role R, statement S, k-th time).

No line numbers or function names are hard coded: sites are (qualname, line - firstlineno).
"""
import os
import sys
import threading
import time
import types

TOOL = 4
mon = sys.monitoring


class StepBudgetExceeded(BaseException):
    """The monitored operation executed more repository statements than its budget."""


class InjectedFault(Exception):
    """Raised by a failpoint."""


class InjectedOSError(OSError):
    """Raised by a failpoint that imitates a failing system call (e.g. EMFILE on open)."""


class _State:
    def __init__(self):
        self.installed = False
        self.codes = {}            # code object -> (qualname, firstlineno, filename)
        self.total = 0             # line events seen in this process
        self.budget = None
        self.steps = 0
        self.active = False        # role/site bookkeeping on?
        self.proc_role = None      # set in forked worker / child processes
        self.occ = {}
        self.plan = {}             # (role, qualname, rel, occ) -> ("sleep", sec) | ("raise", name)
        self.fired = []            # plan entries that fired (role, qualname, rel, occ, kind)
        self.trace_on = False
        self.trace = []
        self.trace_cap = 30000
        self.covered = set()
        self.sleeping = None       # multiprocessing.Value('i') shared by all processes of a case
        self.progress = None       # multiprocessing.RawValue('q'): bumped on every line event
        self.yield_every = 0       # >0: time.sleep(0) every n-th event (forces GIL hand-offs)
        self.instr_offsets = {}    # code -> offsets of attribute access instructions with INSTRUCTION hooks
        self.gates = {}            # name -> {"skip": k, "used": bool, "arrived": Event, "release": Event}


S = _State()


def _role():
    if S.proc_role is not None:
        return S.proc_role
    t = threading.current_thread()
    n = t.name
    if n.startswith("vf:"):
        return n[3:]
    c = t.__class__.__name__
    if c == "_MainThread":
        return "main"
    return c


def _on_line(code, line):
    st = S
    st.total += 1
    if st.progress is not None:
        st.progress.value += 1
    if st.budget is not None:
        st.steps += 1
        if st.steps > st.budget:
            st.budget = None
            raise StepBudgetExceeded()
    if not st.active:
        return
    role = _role()
    qn = code.co_qualname
    rel = line - code.co_firstlineno
    key = (role, qn, rel)
    n = st.occ.get(key, 0) + 1
    st.occ[key] = n
    st.covered.add((qn, rel))
    if st.trace_on and len(st.trace) < st.trace_cap:
        st.trace.append(key)
    if st.plan:
        act = st.plan.get((role, qn, rel, n))
        if act is None and role.startswith("worker"):
            act = st.plan.get(("worker*", qn, rel, n))
        if act is not None:
            st.fired.append((role, qn, rel, n, act[0]))
            if act[0] == "sleep":
                sl = st.sleeping
                if sl is not None:
                    with sl.get_lock():
                        sl.value += 1
                try:
                    time.sleep(act[1])
                finally:
                    if sl is not None:
                        with sl.get_lock():
                            sl.value -= 1
            elif act[0] == "gate":
                # a rendezvous: the thread reports that it stands at this statement and stays there until it is released
                # (the k-th statement that carries the gate, k = gate["skip"]); used once
                g = st.gates.get(act[1])
                if g is not None and not g["used"]:
                    if g["skip"] > 0:
                        g["skip"] -= 1
                    else:
                        g["used"] = True
                        g["site"] = (qn, rel)
                        g["arrived"].set()
                        g["release"].wait(g.get("timeout", 20))
            elif act[0] == "raise":
                raise InjectedFault(f"failpoint at {role}:{qn}+{rel}#{n}")
            elif act[0] == "raise_os":
                raise InjectedOSError(act[1], f"injected OSError at {role}:{qn}+{rel}#{n}")
    if st.yield_every and st.total % st.yield_every == 0:
        time.sleep(0)


def _on_instruction(code, offset):
    """Instruction-granular hook (enabled only on selected hot functions): same delay/fault plan, site = 'i<offset>'."""
    st = S
    if not st.active:
        return
    if offset not in st.instr_offsets.get(code, ()):
        return
    role = _role()
    qn = code.co_qualname
    rel = f"i{offset}"
    key = (role, qn, rel)
    n = st.occ.get(key, 0) + 1
    st.occ[key] = n
    if st.plan:
        act = st.plan.get((role, qn, rel, n))
        if act is None and role.startswith("worker"):
            act = st.plan.get(("worker*", qn, rel, n))
        if act is not None and act[0] == "sleep":
            st.fired.append((role, qn, rel, n, act[0]))
            sl = st.sleeping
            if sl is not None:
                with sl.get_lock():
                    sl.value += 1
            try:
                time.sleep(act[1])
            finally:
                if sl is not None:
                    with sl.get_lock():
                        sl.value -= 1


def enable_instruction_hooks(qualnames):
    """INSTRUCTION events on the given functions, filtered to attribute reads/writes (accesses to shared state): a
    preemption can only matter between two of those. Returns {qualname: [offsets]}."""
    import dis
    out = {}
    mon.register_callback(TOOL, mon.events.INSTRUCTION, _on_instruction)
    prefixes = tuple(q[:-1] for q in qualnames if q.endswith("*"))
    for co, (qn, first, fn) in S.codes.items():
        if qn in qualnames or (prefixes and qn.startswith(prefixes)):
            offs = [i.offset for i in dis.get_instructions(co) if i.opname in ("LOAD_ATTR", "STORE_ATTR", "LOAD_METHOD")]
            S.instr_offsets[co] = frozenset(offs)
            out[qn] = offs
            mon.set_local_events(TOOL, co, mon.events.LINE | mon.events.INSTRUCTION)
    return out


def _walk_code(co, root, out):
    if co in out:
        return
    fn = co.co_filename
    if not fn.startswith(root):
        return
    out[co] = (co.co_qualname, co.co_firstlineno, fn)
    for c in co.co_consts:
        if isinstance(c, types.CodeType):
            _walk_code(c, root, out)


def _walk_obj(o, root, out, seen, depth=0):
    if id(o) in seen or depth > 6:
        return
    seen.add(id(o))
    if isinstance(o, types.FunctionType):
        _walk_code(o.__code__, root, out)
    elif isinstance(o, (staticmethod, classmethod)):
        _walk_obj(o.__func__, root, out, seen, depth + 1)
    elif isinstance(o, property):
        for f in (o.fget, o.fset, o.fdel):
            if f is not None:
                _walk_obj(f, root, out, seen, depth + 1)
    elif isinstance(o, type):
        mod = getattr(o, "__module__", "") or ""
        if mod.startswith("windpyutils"):
            for v in list(vars(o).values()):
                _walk_obj(v, root, out, seen, depth + 1)
    elif hasattr(o, "__wrapped__"):
        _walk_obj(o.__wrapped__, root, out, seen, depth + 1)


def repo_root():
    from vf import common
    return os.path.realpath(os.path.join(common.REPO, "windpyutils")) + os.sep


def discover():
    """All code objects of the repository's package that are reachable from loaded modules."""
    root = repo_root()
    out = {}
    seen = set()
    for name, m in list(sys.modules.items()):
        if m is None or not (name == "windpyutils" or name.startswith("windpyutils.")):
            continue
        f = getattr(m, "__file__", None)
        if not f or not os.path.realpath(f).startswith(root):
            continue
        for v in list(vars(m).values()):
            _walk_obj(v, root, out, seen)
    return out


def install(modules=()):
    """Enable LINE events on all repository code objects discovered so far (idempotent)."""
    import importlib
    for m in modules:
        importlib.import_module(m)
    if not S.installed:
        try:
            mon.use_tool_id(TOOL, "vf-line-monitor")
        except ValueError:
            pass  # inherited through fork
        mon.register_callback(TOOL, mon.events.LINE, _on_line)
        S.installed = True
    found = discover()
    for co, meta in found.items():
        if co not in S.codes:
            mon.set_local_events(TOOL, co, mon.events.LINE)
            S.codes[co] = meta
    return len(S.codes)


def uninstall():
    if S.installed:
        for co in list(S.codes):
            try:
                mon.set_local_events(TOOL, co, 0)
            except Exception:
                pass
        S.codes.clear()
        mon.register_callback(TOOL, mon.events.LINE, None)
        mon.free_tool_id(TOOL)
        S.installed = False


def instrumented_functions(prefixes=None):
    names = sorted({m[0] for m in S.codes.values()})
    if prefixes:
        names = [n for n in names if any(n.startswith(p) for p in prefixes)]
    return names


class budget:
    """with budget(n): ...   raises StepBudgetExceeded once more than n repository lines ran."""

    def __init__(self, n):
        self.n = n

    def __enter__(self):
        S.steps = 0
        S.budget = self.n
        return self

    def __exit__(self, *a):
        self.used = S.steps
        S.budget = None
        return False


def reset_for_child(role):
    """Called first thing in a forked child: own counters, own role, same plan."""
    S.proc_role = role
    S.occ = {}
    S.fired = []
    S.trace = []
    S.covered = set()
    S.total = 0
    S.budget = None


def start_case(plan=None, trace=True, sleeping=None, progress=None, yield_every=0):
    S.occ = {}
    S.fired = []
    S.trace = []
    S.covered = set()
    S.plan = dict(plan or {})
    S.trace_on = trace
    S.sleeping = sleeping
    S.progress = progress
    S.yield_every = yield_every
    S.active = True


def stop_case():
    S.active = False
    S.plan = {}
    S.trace_on = False


def switch_pairs(trace):
    """Set of (site of role A, next site of role B != A) pairs in the global order of one process."""
    pairs = set()
    prev = None
    for k in trace:
        if prev is not None and prev[0] != k[0]:
            pairs.add((prev, k))
        prev = k
    return pairs
