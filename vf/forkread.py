"""
C18 engine: one line/map file opened in a parent and read concurrently from forked children,
grandchildren and the parent itself.

Two observers:
  (1) every read of every process is compared with the reference line (event log, delays injected
      between the statement that seeks and the statement that reads);
  (2) descriptor ownership at the system-call boundary: the same workload runs under
      `strace -f -y`; an offline checker tracks, per process, the descriptors it opened itself and
      reports every lseek/read/pread64 on the data file through a descriptor the process inherited.

Can be executed as a program (strace mode):  python -m vf.forkread <case.json> <out.json>
"""
import json
import multiprocessing
import os
import random
import re
import sys
import time

LINE_POOL = ["alpha", "", "cr\rinside", "dos line ending\r", "more than a page " + "p" * 5000, "more than a pipe buffer " + "q" * 70000, "žluťoučký kůň", "日本語のテキスト", "😀 emoji", "  padded  ", "tab\there", "x" * 300, "0", "-1",
             "a,b,c", "quote\"s", "ěščřžýáíé", "long " * 40, "end"]


def make_lines(n, seed):
    rng = random.Random(seed)
    return [f"{i}:{rng.choice(LINE_POOL)}" for i in range(n)]


def offsets_of(lines):
    offs, pos = [], 0
    for l in lines:
        offs.append(pos)
        pos += len(l.encode("utf-8")) + 1
    return offs


def write_files(case, d):
    lines = make_lines(case["nlines"], case["seed"])
    path = os.path.join(d, "data.txt")
    with open(path, "wb") as f:
        f.write(("\n".join(lines) + "\n").encode("utf-8"))
    return path, lines


def open_object(case, path, lines):
    import windpyutils.files as wf
    v = case["variant"]
    if v == "MapAccessFile":
        mapping = {f"k{i}": o for i, o in enumerate(offsets_of(lines))}
        if case.get("map_from_file"):
            ip = path + ".index"
            with open(ip, "w", newline="") as f:
                f.write("key\tfile_line_offset\n")
                for k, o in mapping.items():
                    f.write(f"{k}\t{o}\n")
            return wf.MapAccessFile(path, ip)
        return wf.MapAccessFile(path, mapping)
    if "Record" in v:
        from dataclasses import dataclass

        @dataclass
        class Raw(wf.Record):
            s: str

            @classmethod
            def load(cls, s):
                return cls(s)

            def save(self):
                return self.s
        return getattr(wf, v)(path, Raw)
    return getattr(wf, v)(path)


def do_reads(obj, case, lines, who, nreads, seed, log, first=None):
    """Random access sequence of one process; `first` forces the index of the first read. A read that raises is
    answered the way a caller would: open() again and retry once (only injected faults make reads raise)."""
    rng = random.Random(seed)
    n = len(lines)
    v = case["variant"]
    bad = []
    cnt = 0
    recovered = 0
    unwrap = (lambda r: r.s) if "Record" in v else (lambda r: r)
    k = 0
    retry = None
    while k < nreads:
        op = rng.random() if retry is None else retry[0]
        forced = first if (k == 0 and first is not None) else (retry[1] if retry else None)
        try:
            if v == "MapAccessFile":
                i = rng.randrange(n) if forced is None else forced % n
                forced_used = i
                got, want = obj[f"k{i}"], (case.get("_single_process_ref") or {}).get(i, lines[i] + "\n")
                desc = f"m['k{i}']"
            elif op < 0.75 or forced is not None:
                i = rng.randrange(-n, n) if forced is None else forced % n
                forced_used = i
                got, want = unwrap(obj[i]), lines[i]
                desc = f"f[{i}]"
            elif op < 0.9:
                a = rng.randrange(n)
                sl = slice(a, min(n, a + rng.randint(1, 4)))
                got, want = [unwrap(x) for x in obj[sl]], lines[sl]
                desc = f"f[{sl.start}:{sl.stop}]"
            else:
                got, want = [unwrap(x) for x in obj], list(lines)
                desc = "list(f)"
        except Exception as e:
            if retry is None and "injected" in str(e):
                # the caller's ordinary reaction to a failed read: make sure the file is open and try again
                recovered += 1
                try:
                    obj.open()
                except Exception as e2:
                    bad.append([f"open() after a failed read", "success", f"raised {type(e2).__name__}: {e2}"])
                retry = (0.0, locals().get("forced_used", 0) if v != "x" else 0)
                continue
            got, want, desc = f"raised {type(e).__name__}: {e}", "a line", f"read #{k}"
        retry = None
        k += 1
        cnt += 1
        if got != want and len(bad) < 3:
            bad.append([desc, repr(want)[:120], repr(got)[:120]])
        if case.get("pace"):
            time.sleep(case["pace"])
    log("reads_done", who=who, n=cnt, bad=bad, recovered=recovered)
    return cnt, bad


def run_workload(case, d, log, label_child=None):
    """The workload itself; `log(ev, **kw)` records events; label_child(role) is called first thing in each child."""
    path, lines = write_files(case, d)
    if case.get("global_start_method"):
        # the application has chosen another default start method for multiprocessing; it still forks its readers
        multiprocessing.set_start_method(case["global_start_method"], force=True)
    obj = open_object(case, path, lines)
    obj.open()
    nreads = case.get("reads", 60)
    if case["variant"] == "MapAccessFile":
        # the reference of the statement: what a single process reads (MapAccessFile opens its file with newline
        # translation, so a line holding a carriage return is not returned byte for byte); taken before any fork
        case = dict(case)
        case["_single_process_ref"] = {i: obj[f"k{i}"] for i in range(len(lines))}
        log("single_process_reference", n=len(lines),
            differs_from_raw=sum(1 for i, l in enumerate(lines) if case["_single_process_ref"][i] != l + "\n"))
    # the parent reads before forking: the inherited handle has a position and a filled buffer
    do_reads(obj, case, lines, "parent-before-fork", case.get("parent_reads_before", 5), case["seed"] + 1, log)
    last_parent = None
    if case.get("first_follows_parent") and len(lines) > 2:
        # the last thing the parent reads before forking is line K; every child starts with line K+1 (the position
        # the inherited handle stands on)
        last_parent = (case["seed"] * 13) % (len(lines) - 1)
        do_reads(obj, case, lines, "parent-before-fork-last", 1, case["seed"] + 5, log, first=last_parent)
    def use_another_object(who):
        """A second, unrelated file object of the same class is opened, read and closed: objects do not share anything."""
        p2 = path + ".other"
        c2 = dict(case, nlines=3, map_from_file=False)
        o2 = open_object(c2, p2, ["other 0", "other 1", "other 2"])
        o2.open()
        try:
            got = o2["k1"] if case["variant"] == "MapAccessFile" else o2[1]
            got = getattr(got, "s", got)
        except Exception as e:
            if "injected" in str(e):
                # a failpoint of this run fired here (first execution of the statement in this process): nothing to judge
                log("reads_done", who=who + "-other-object", n=0, bad=[], recovered=1)
                return
            got = f"raised {type(e).__name__}: {e}"
        finally:
            try:
                o2.close()
            except Exception:
                pass
        ok = got in ("other 1", "other 1\n")
        log("reads_done", who=who + "-other-object", n=1, bad=[] if ok else [["second object [1]", "'other 1'", repr(got)[:80]]], recovered=0)

    if case.get("other_object"):
        with open(path + ".other", "wb") as f:       # written once, before any fork
            f.write(b"other 0\nother 1\nother 2\n")
    if case.get("other_object") == "parent_before_fork":
        use_another_object("parent")
    twins = []
    if case.get("twin_objects"):
        # further objects on the SAME file, open in the parent when it forks: a second object of the class and a copy.copy of
        # the opened object; the parent and some children read through them
        import copy
        o2 = open_object(case, path, lines)
        o2.open()
        try:
            twins.append(("copy.copy of the opened object", copy.copy(obj)))
        except Exception:
            pass
        twins.append(("second object on the same file", o2))
        for name_, t_ in twins:
            do_reads(t_, case, lines, "parent-" + name_.split()[0], 3, case["seed"] + 11, log)
    kids = []
    style = case.get("fork_style", "os.fork")
    K = case["children"]
    shared_it = None
    if case.get("iter_across_fork") is not None and case["variant"] != "MapAccessFile" and len(lines) > 3:
        # an iteration that was started before the fork (a header consumed in the parent) and is continued afterwards in
        # every process: each continuation yields the remaining lines
        unwrap0 = (lambda r: r.s) if "Record" in case["variant"] else (lambda r: r)
        k0 = 1 + case["iter_across_fork"] % (len(lines) - 2)
        it0 = iter(obj)
        head = [unwrap0(next(it0)) for _ in range(k0)]
        log("reads_done", who="parent-iterator-head", n=k0, bad=[] if head == lines[:k0] else [["iterator head", repr(lines[:k0])[:120], repr(head)[:120]]],
            recovered=0)
        shared_it = (it0, k0, unwrap0)

    def continue_iteration(who):
        if shared_it is None:
            return
        it0, k0, unwrap0 = shared_it
        try:
            rest = [unwrap0(x) for x in it0]
        except Exception as e:
            if "injected" in str(e):
                # a failpoint of this run fired inside the iteration: a generator cannot be resumed after an exception, the
                # caller's retry is exercised by the random reads
                try:
                    obj.open()      # the caller's ordinary reaction to a failed read (as in do_reads)
                except Exception:
                    pass
                log("reads_done", who=who + "-iterator-rest", n=0, bad=[], recovered=1)
                return
            rest = f"raised {type(e).__name__}: {e}"
        bad = [] if rest == lines[k0:] else [[f"rest of an iteration started before the fork (after {k0} lines)", repr(lines[k0:])[:120],
                                               repr(rest)[:120]]]
        log("reads_done", who=who + "-iterator-rest", n=len(lines) - k0, bad=bad, recovered=0)
    gate = None
    side = None
    if case.get("thread_reads_during_fork") is not None:
        # a second thread of the parent (a prefetcher) is in the middle of a read while the main thread forks: it is held at
        # the k-th statement it executes inside the library's read path (a gate in the line monitor, so it is not inside
        # any C-level I/O call and holds no interpreter-internal lock) until all children are forked
        import threading
        from vf import instr
        if instr.S.active:
            gate = {"skip": int(case["thread_reads_during_fork"]), "used": False, "arrived": threading.Event(),
                    "release": threading.Event(), "timeout": 30}
            instr.S.gates["T"] = gate
            for co, (qn, first, fn) in instr.S.codes.items():
                if qn.endswith(("_read_line", "_read_next_line", "_file_seek", "reopen_if_needed", "MapAccessFile.__getitem__")):
                    for rel in range(0, 40):
                        for occ in range(1, 6):
                            instr.S.plan[("T", qn, rel, occ)] = ("gate", "T")
            stop_side = threading.Event()

            def side_main():
                k = 0
                while not stop_side.is_set() and k < 400:
                    do_reads(obj, case, lines, "parent-thread", 1, case["seed"] * 7 + k, lambda *a, **kw: None)
                    k += 1
                log("side_thread_done", reads=k)
            side = threading.Thread(target=side_main, name="vf:T")
            side.start()
            gated = gate["arrived"].wait(5)
            log("side_thread_gated", gated=bool(gated), site=list(gate.get("site") or []))

    def child_main(i, depth=0):
        if label_child:
            label_child(f"workerC{i}" if depth == 0 else f"workerG{i}")
        sub = None
        if style == "grand" and depth == 0:
            sub = os.fork()
            if sub == 0:
                child_main(i, 1)
                os._exit(0)
        if case.get("other_object") == "child_first":
            use_another_object(f"{'child' if depth == 0 else 'grandchild'}{i}")
        if i % 2 == 0:
            continue_iteration(f"{'child' if depth == 0 else 'grandchild'}{i}")
        who_ = f"{'child' if depth == 0 else 'grandchild'}{i}"
        reader = obj
        if twins and i % 2 == 1:
            reader = twins[(i // 2) % len(twins)][1]       # this child reads through the second object / the copy made in the parent
        if case.get("child_thread") and i % 2 == 0:
            # the child does its reads in a thread of its own
            import threading
            t_ = threading.Thread(target=do_reads, args=(reader, case, lines, who_, nreads, case["seed"] * 101 + i * 7 + depth, log),
                                  kwargs={"first": None if last_parent is None else last_parent + 1}, name="vf:childreader")
            t_.start()
            t_.join()
        else:
            do_reads(reader, case, lines, who_, nreads, case["seed"] * 101 + i * 7 + depth, log,
                     first=None if last_parent is None else last_parent + 1)
        if i % 2 == 1:
            continue_iteration(f"{'child' if depth == 0 else 'grandchild'}{i}")
        if sub:
            os.waitpid(sub, 0)

    tight = None
    if case.get("fd_tight") and style != "mp" and shared_it is None and side is None and not case.get("other_object"):
        # the forking process has no free descriptor left (RLIMIT_NOFILE reached): a child can replace the inherited handle by
        # its own one (close, then open) but cannot hold both for a moment. One spare slot is kept for the child's own log
        # descriptor (harness business) and given up by the child first thing.
        import resource
        soft, hard = resource.getrlimit(resource.RLIMIT_NOFILE)
        spare = os.open("/dev/null", os.O_RDONLY)
        top = max(int(x) for x in os.listdir("/proc/self/fd"))
        resource.setrlimit(resource.RLIMIT_NOFILE, (top + 40, hard))
        filler = []
        try:
            while True:
                filler.append(os.open("/dev/null", os.O_RDONLY))
        except OSError:
            pass
        tight = (spare, filler, soft, hard)
        log("descriptor_table_full", open=len(filler))
    if style == "mp":
        ctx = multiprocessing.get_context("fork")
        for i in range(K):
            p = ctx.Process(target=child_main, args=(i,))
            p.start()
            kids.append(p)
    else:
        for i in range(K):
            pid = os.fork()
            if pid == 0:
                code = 0
                try:
                    if tight:
                        os.close(tight[0])
                    child_main(i)
                except BaseException as e:
                    log("child_exception", who=f"child{i}", exc=f"{type(e).__name__}: {e}")
                    code = 1
                os._exit(code)
            kids.append(pid)
    if tight:
        import resource
        for fd_ in tight[1] + [tight[0]]:
            os.close(fd_)
        resource.setrlimit(resource.RLIMIT_NOFILE, (tight[2], tight[3]))
    if side is not None:
        # the children are forked; the thread may go on, finishes its read and stops before the main thread reads itself
        # (two threads of ONE process sharing the handle is not what the property is about)
        gate["release"].set()
        stop_side.set()
        side.join(30)
        instr.S.gates.pop("T", None)
    do_reads(obj, case, lines, "parent-concurrent", nreads // 2, case["seed"] + 2, log)
    continue_iteration("parent")
    do_reads(obj, case, lines, "parent-concurrent", nreads - nreads // 2, case["seed"] + 4, log)
    codes = []
    for k in kids:
        if style == "mp":
            k.join()
            codes.append(k.exitcode)
        else:
            _, st = os.waitpid(k, 0)
            codes.append(os.waitstatus_to_exitcode(st))
    do_reads(obj, case, lines, "parent-after-join", 10, case["seed"] + 3, log)
    obj.close()
    log("workload_done", exitcodes=codes, data_path=path)
    return path


def drive_forkread(case, sh, state):
    from vf import instr
    state["phase"] = "forkread"
    d = os.path.join(os.path.dirname(sh.logpath), "fr")
    os.makedirs(d, exist_ok=True)
    run_workload(case, d, sh.log, instr.reset_for_child)
    state["phase"] = "done"


def read_findings(case, result):
    out = []
    total = 0
    procs = set()
    done = False
    for e in result.get("events", []):
        if e["ev"] == "reads_done":
            total += e["n"]
            procs.add((e["pid"], e["who"]))
            for desc, want, got in e.get("bad", []):
                out.append(("wrong-line", f"{case['variant']}: {e['who']} (pid {e['pid']}) read {desc} -> {got}, the "
                            f"file holds {want}"))
        elif e["ev"] == "child_exception":
            out.append(("child-raised", f"{e['who']}: {e['exc']}"))
        elif e["ev"] == "workload_done":
            done = True
            if any(c not in (0, None) for c in e.get("exitcodes", [])):
                out.append(("child-raised", f"child exit codes {e['exitcodes']}"))
    if result.get("status") == "deadlock":
        out.append(("forkread-deadlock", f"quiescent state in phase {result.get('phase')}"))
    if result.get("status") == "driver-exception":
        out.append(("parent-raised", str((result.get("witness") or {}).get("exception"))))
    return out, total, len(procs), done


# ------------------------------------------------------------------------------------ strace oracle

_LINE = re.compile(r"^(\d+)\s+(.*)$")
_FDARG = re.compile(r"^\w+\((\d+)<([^>]*)>")
_OPENRES = re.compile(r"=\s*(\d+)<([^>]*)>\s*$")


def check_trace(trace_path, data_path):
    """Returns (violations, stats). A violation = lseek/read/readv on the data file via an inherited descriptor (the calls
    that use or move the shared position)."""
    data_path = os.path.realpath(data_path)
    group = {}          # tid -> process id (thread group leader as seen here)
    own = {}            # process -> set of fds it opened itself on the data file
    pending = {}        # tid -> syscall name of an unfinished call
    viol = []
    stats = {"syscalls_on_data_file": 0, "opens_of_data_file": 0, "processes": 0, "processes_reading_data_file": set()}
    first = None
    # first pass: which tids are threads of which process. A clone call is often split into an "unfinished" line (with the
    # flags) and a "resumed" line (with the new tid), and the new thread's own calls may appear between the two
    thread_parent = {}
    clone_flags = {}
    with open(trace_path, errors="replace") as f:
        for raw in f:
            m = _LINE.match(raw.rstrip("\n"))
            if not m:
                continue
            tid, rest = int(m.group(1)), m.group(2)
            if rest.startswith("<..."):
                mm = re.match(r"<\.\.\. (\w+) resumed>", rest)
                if not mm or mm.group(1) not in ("clone", "clone3", "fork", "vfork"):
                    continue
                flags = clone_flags.pop(tid, "")
            else:
                if rest.split("(", 1)[0] not in ("clone", "clone3", "fork", "vfork"):
                    continue
                flags = rest
                if rest.endswith("<unfinished ...>"):
                    clone_flags[tid] = rest
                    continue
            mres = re.search(r"=\s*(\d+)\s*$", rest)
            if mres and ("CLONE_THREAD" in flags or "CLONE_FILES" in flags):
                thread_parent[int(mres.group(1))] = tid

    def leader(t):
        seen = set()
        while t in thread_parent and t not in seen:
            seen.add(t)
            t = thread_parent[t]
        return t
    with open(trace_path, errors="replace") as f:
        for raw in f:
            m = _LINE.match(raw.rstrip("\n"))
            if not m:
                continue
            tid, rest = int(m.group(1)), m.group(2)
            if first is None:
                first = tid
            if tid not in group:
                group[tid] = leader(tid)
            g = group[tid]
            own.setdefault(g, set())
            if rest.startswith("<..."):
                mm = re.match(r"<\.\.\. (\w+) resumed>", rest)
                name = mm.group(1) if mm else ""
                resumed = True
            else:
                name = rest.split("(", 1)[0]
                resumed = False
                if rest.endswith("<unfinished ...>"):
                    pending[tid] = name
            if name in ("clone", "clone3", "fork", "vfork"):
                mres = re.search(r"=\s*(\d+)\s*$", rest)
                if mres:
                    child = int(mres.group(1))
                    if leader(child) != child:
                        group[child] = leader(child)        # a thread (known from the first pass)
                    else:
                        group[child] = child
                        own.setdefault(child, set())
                elif not resumed and ("CLONE_THREAD" in rest or "CLONE_FILES" in rest):
                    pending[tid] = "clone_thread"
                continue
            if name == "openat":
                mo = _OPENRES.search(rest)
                if mo and os.path.realpath(mo.group(2)) == data_path:
                    own[g].add(int(mo.group(1)))
                    stats["opens_of_data_file"] += 1
                continue
            if resumed:
                continue
            ma = _FDARG.match(rest)
            if not ma:
                continue
            fd, path = int(ma.group(1)), ma.group(2)
            if os.path.realpath(path) != data_path:
                continue
            if name == "close":
                own[g].discard(fd)
            elif name in ("lseek", "read", "pread64", "readv", "preadv"):
                stats["syscalls_on_data_file"] += 1
                stats["processes_reading_data_file"].add(g)
                if name in ("pread64", "preadv"):
                    # positional reads neither use nor move the position of the open file description: harmless on an
                    # inherited descriptor (counted, not judged)
                    stats["positional_reads_on_inherited_descriptors"] = stats.get("positional_reads_on_inherited_descriptors", 0) + \
                        (fd not in own[g])
                elif fd not in own[g]:
                    if len(viol) < 5:
                        viol.append(f"process {g} ({'the parent' if g == first else 'a forked child'}) issued "
                                    f"{rest[:80]} on a descriptor it did not open itself (inherited open file description)")
            elif name in ("dup", "dup2", "dup3"):
                mres = re.search(r"=\s*(\d+)", rest)
                if mres and fd in own[g]:
                    own[g].add(int(mres.group(1)))
    stats["processes"] = len(set(group.values()))
    stats["processes_reading_data_file"] = len(stats["processes_reading_data_file"])
    return viol, stats


def main():
    """strace mode: run the workload without the engine; events go to a JSON-lines file."""
    case = json.load(open(sys.argv[1]))
    out = sys.argv[2]
    d = os.path.dirname(os.path.abspath(out))
    sys.path.insert(0, os.environ.get("VERIF_REPO", "/repo"))
    fd = os.open(out, os.O_WRONLY | os.O_APPEND | os.O_CREAT, 0o600)

    def log(ev, **kw):
        kw["ev"] = ev
        kw["pid"] = os.getpid()
        os.write(fd, (json.dumps(kw) + "\n").encode())
    label = None
    if case.get("plan"):
        # failpoints also under strace: the descriptor-ownership oracle then sees what a child does after a failed reopen
        sys.path.insert(0, os.path.dirname(os.path.dirname(os.path.abspath(__file__))))
        from vf import instr
        instr.install(["windpyutils.files"])
        instr.start_case(plan={(r, q, rel, o): (k, a) for r, q, rel, o, k, a in case["plan"]}, trace=False)
        label = instr.reset_for_child
    run_workload(case, d, log, label)


if __name__ == "__main__":
    main()
