"""
Driver for the sequential, reference-model checks: seeded case generation per shard, oracle
after every operation (inside the check module), delta-debugging shrinker, replay.

A check module built on this file provides

    NCASES = {"quick": n, "thorough": n}, NSHARDS
    gen_case(rng, tier, index) -> JSON-able case
    run_case(case, res)        -> raises common.Violation on the first refuting observation
    shrinkable(case)           -> (list_of_ops, rebuild(list_of_ops) -> case)   (optional)
"""
import os
import time
import traceback

from vf import common, instr
from vf.common import Violation, ShardResult


def std_plan(mod, tier, seed):
    n = mod.NSHARDS[tier] if isinstance(mod.NSHARDS, dict) else mod.NSHARDS
    return [{"tier": tier, "seed": seed, "shard": i, "nshards": n} for i in range(n)]


def run_guarded(mod, case, res):
    """Runs one case; returns None or a Violation. Harness bugs surface as exceptions (shard crashes)."""
    try:
        mod.run_case(case, res)
        return None
    except Violation as v:
        return v
    except instr.StepBudgetExceeded:
        # a budget overrun that the check did not translate itself
        return Violation("step-budget-exceeded", "operation did not finish within its statement budget", {})
    except Exception as e:
        # an exception the harness did not anticipate: if it came out of the library's code (some frame of the traceback
        # is a file of the repository) the operation the harness was performing failed, which is an observation about
        # the library; otherwise it is a bug of the harness and crashes the shard
        frames = [f for f in traceback.extract_tb(e.__traceback__) if f.filename.startswith(common.REPO + os.sep)]
        if not frames:
            raise
        f = frames[-1]
        where = f"{os.path.relpath(f.filename, common.REPO)}:{f.name}"
        return Violation("unexpected-exception", f"{type(e).__name__}: {str(e)[:160]} came out of {where} during a step the "
                         f"reference performs without error", {"traceback": traceback.format_exception(e)[-6:]})


def shrink(mod, case, mechanism, max_runs=400, max_time=20.0):
    """Delta debugging over the case's operation list: keep removing chunks while the same mechanism fires."""
    if not hasattr(mod, "shrinkable"):
        return case
    ops, rebuild = mod.shrinkable(case)
    t0 = time.time()
    runs = 0
    scratch = ShardResult()

    def fails(cand_ops):
        nonlocal runs
        runs += 1
        try:
            v = run_guarded(mod, rebuild(cand_ops), scratch)
        except Exception:
            return False  # shrinking made the case ill-formed for the harness; not a verdict
        return v is not None and v.mechanism == mechanism

    n = 2
    while len(ops) >= 2 and runs < max_runs and time.time() - t0 < max_time:
        chunk = max(1, len(ops) // n)
        reduced = False
        for i in range(0, len(ops), chunk):
            cand = ops[:i] + ops[i + chunk:]
            if cand and fails(cand):
                ops = cand
                n = max(n - 1, 2)
                reduced = True
                break
            if runs >= max_runs or time.time() - t0 > max_time:
                break
        if not reduced:
            if chunk == 1:
                break
            n = min(len(ops), n * 2)
    return rebuild(ops)


def std_run_shard(mod, spec):
    res = ShardResult()
    tier, seed = spec["tier"], spec["seed"]
    ncases = mod.NCASES[tier]
    instr.install()
    per_mech = {}
    t_end = time.time() + getattr(mod, "SHARD_BUDGET_S", {"quick": 240, "thorough": 3000})[tier]
    for index in range(spec["shard"], ncases, spec["nshards"]):
        if time.time() > t_end:
            res.count("cases_skipped_time_cap")
            continue
        rng = common.rng_for(mod.PROP, seed, index)
        case = mod.gen_case(rng, tier, index)
        res.count("cases")
        v = run_guarded(mod, case, res)
        if v is not None:
            k = per_mech.get(v.mechanism, 0)
            per_mech[v.mechanism] = k + 1
            if k < 2:
                small = shrink(mod, case, v.mechanism)
                v2 = run_guarded(mod, small, ShardResult())
                if v2 is None or v2.mechanism != v.mechanism:
                    small, v2 = case, v
                res.violation(v.mechanism, v2.summary, {"case": small, "witness": v2.witness})
            elif k < 50:
                res.violation(v.mechanism, v.summary, {"case": case, "witness": v.witness})
            else:
                res.count("violations_not_listed_" + v.mechanism)
        elif index % 97 == 0:
            res.sample(mod.describe(case) if hasattr(mod, "describe") else case)
    return res.as_dict()


def std_replay(mod, doc):
    instr.install()
    case = doc["replay"]["case"]
    v = run_guarded(mod, case, ShardResult())
    if v is None:
        return False, "case executed without a refuting observation"
    return True, f"reproduced: {v.mechanism}: {v.summary}\nwitness: {v.witness}"


def outcome(fn, *a, **k):
    """('ok', value) or ('exc', ExceptionClassName); budget overruns propagate."""
    try:
        return ("ok", fn(*a, **k))
    except instr.StepBudgetExceeded:
        raise
    except Exception as e:
        return ("exc", type(e).__name__)
