"""
Common machinery of the runtime-monitoring checks: where the repository is, seeds and
tiers, scratch directories, shard fan-out in plain subprocesses, three-valued verdicts,
evidence files, known findings, exit codes.

Nothing here knows a property; the property modules live in vf/checks/cXX.py and expose

    PROP, LEVEL, RULE, ASSUMPTIONS
    plan(tier, seed)        -> list of JSON-able shard specs
    run_shard(spec)         -> ShardResult.as_dict()
    replay(doc)             -> (violated: bool, text)        (optional)
"""
import hashlib
import json
import os
import random
import shutil
import signal
import subprocess
import sys
import tempfile
import time
import traceback

VERIF_ROOT = os.path.dirname(os.path.dirname(os.path.abspath(__file__)))
REPO = os.environ.get("VERIF_REPO", "/repo")
PY = sys.executable
NCPU = os.cpu_count() or 4


def add_repo_to_path():
    """The checks always import the working tree of the repository, never an installed copy."""
    if REPO not in sys.path:
        sys.path.insert(0, REPO)
    import windpyutils  # noqa
    got = os.path.realpath(os.path.dirname(windpyutils.__file__))
    want = os.path.realpath(os.path.join(REPO, "windpyutils"))
    if got != want:
        raise RuntimeError(f"windpyutils imported from {got}, expected {want}")


def scratch_dir(prefix="vf-"):
    base = "/dev/shm" if os.path.isdir("/dev/shm") and os.access("/dev/shm", os.W_OK) else None
    own = os.environ.get("VF_SCRATCH_BASE")
    if own and os.path.isdir(own):
        base = own          # inside a shard: the orchestrator removes this directory whatever becomes of the shard
    return tempfile.mkdtemp(prefix=prefix, dir=base)


def rng_for(*parts):
    h = hashlib.sha256(repr(parts).encode()).digest()
    return random.Random(int.from_bytes(h[:8], "big"))


def h64(obj):
    """Stable short hash of a JSON-able / repr-able object, used to count distinct states."""
    if not isinstance(obj, (bytes, bytearray)):
        obj = repr(obj).encode("utf-8", "backslashreplace")
    return hashlib.blake2b(obj, digest_size=8).hexdigest()


def fresh(x):
    """An object equal to x, of the same type, that is not x wherever the language allows it (identity of keys, serial
    numbers, probes must never matter; small ints, single characters, None and booleans are singletons anyway)."""
    if x is None or isinstance(x, bool):
        return x
    if isinstance(x, int):
        return int(str(x)) if abs(x) > 256 and x.bit_length() < 10000 else x
    if isinstance(x, float):
        return float.fromhex(x.hex()) if x == x else x
    if isinstance(x, str):
        return "".join(list(x)) if len(x) > 1 else x
    if isinstance(x, tuple):
        return tuple(fresh(e) for e in x) if x else x
    return x


class Violation(Exception):
    """Raised by an oracle; carries a mechanism key (for the known-findings file) and a witness."""

    def __init__(self, mechanism, summary, witness=None):
        super().__init__(f"{mechanism}: {summary}")
        self.mechanism = mechanism
        self.summary = summary
        self.witness = witness or {}


class ShardResult:
    MAX_DISTINCT = 400000

    def __init__(self):
        self.evaluations = 0          # oracle evaluations / cases executed
        self.distinct = set()         # hashes of distinct non-trivial cases / states
        self.violations = []          # dicts: mechanism, summary, replay
        self.inconclusive = []        # dicts: reason, case
        self.samples = []
        self.counters = {}
        self.sets = {}                # named sets (e.g. statements covered, sites swept)

    def count(self, key, n=1):
        self.counters[key] = self.counters.get(key, 0) + n

    def seen(self, obj):
        if len(self.distinct) < self.MAX_DISTINCT:
            self.distinct.add(obj if isinstance(obj, str) and len(obj) == 16 else h64(obj))

    def add_to(self, name, value):
        self.sets.setdefault(name, set()).add(value)

    def sample(self, obj, limit=3):
        if len(self.samples) < limit:
            self.samples.append(obj)

    def violation(self, mechanism, summary, replay):
        if isinstance(replay, dict):
            # the interpreter conditions of this shard belong to the witness: a replay re-creates them
            replay = dict(replay, _env={"debug_logging": bool(os.environ.get("VF_DEBUG_LOGGING")), "optimize": int(sys.flags.optimize),
                                        "lib_warnings_as_errors": bool(os.environ.get("VF_LIB_WARNINGS_AS_ERRORS"))})
        self.violations.append({"mechanism": mechanism, "summary": summary, "replay": replay})

    def as_dict(self):
        return {"evaluations": self.evaluations, "distinct": sorted(self.distinct),
                "violations": self.violations, "inconclusive": self.inconclusive,
                "samples": self.samples, "counters": self.counters,
                "sets": {k: sorted(v) for k, v in self.sets.items()}}


# --------------------------------------------------------------------------------------
# known findings


def load_known():
    p = os.path.join(VERIF_ROOT, "known_findings.json")
    if not os.path.exists(p):
        return []
    with open(p) as f:
        return json.load(f).get("findings", [])


def known_entry(prop, mechanism):
    for e in load_known():
        if e.get("property") == prop and e.get("mechanism") == mechanism and e.get("status") == "known":
            return e
    return None


# --------------------------------------------------------------------------------------
# fan-out


def _kill_group(p):
    try:
        os.killpg(p.pid, signal.SIGKILL)
    except (ProcessLookupError, PermissionError):
        pass
    try:
        p.kill()
    except ProcessLookupError:
        pass


def _kill_group_only(p):
    try:
        os.killpg(p.pid, signal.SIGKILL)
    except (ProcessLookupError, PermissionError):
        pass


def run_shards(prop, specs, shard_timeout, max_parallel=None, env_extra=None):
    """
    Runs every spec in its own python subprocess (own session, output to files, killed as a
    process group), at most max_parallel at a time. Returns list of (spec, result|None, note).
    """
    max_parallel = max_parallel or NCPU
    work = scratch_dir("vf-orch-")
    pending = list(enumerate(specs))
    running = {}
    done = [None] * len(specs)
    env = dict(os.environ)
    env.setdefault("PYTHONHASHSEED", "0")
    env["PYTHONUTF8"] = "1"
    env["PYTHONDONTWRITEBYTECODE"] = "1"
    env["PYTHONPATH"] = VERIF_ROOT + os.pathsep + REPO
    if env_extra:
        env.update(env_extra)
    try:
        while pending or running:
            while pending and len(running) < max_parallel:
                i, spec = pending.pop(0)
                sp = os.path.join(work, f"spec{i}.json")
                op = os.path.join(work, f"out{i}.json")
                lp = os.path.join(work, f"log{i}.txt")
                with open(sp, "w") as f:
                    json.dump(spec, f)
                lf = open(lp, "wb")
                # scratch space of the shard and of everything it starts (temporary files of the code under test and the socket
                # directories of multiprocessing managers included): removed here, also when the shard has to be killed
                td = os.path.join(work, f"tmp{i}")
                os.makedirs(td, exist_ok=True)
                env_i = dict(env, VF_SCRATCH_BASE=td, TMPDIR=td)
                if i % 4 == 2:
                    # every fourth shard turns warnings that are attributed to the library's own modules into errors (an application
                    # run with -W error, a test suite with filterwarnings=error): the unchanged library never warns
                    env_i["VF_LIB_WARNINGS_AS_ERRORS"] = "1"
                if i % 4 == 1:
                    # every fourth shard runs with logging switched on at DEBUG level for every logger (an application that
                    # debugs): whatever the library logs is formatted, and must not change what the library does
                    env_i["VF_DEBUG_LOGGING"] = "1"
                # every fourth shard runs under `python -O` (assert statements are compiled away): what the library does must
                # not depend on work done inside an assert
                pyflags = ["-O"] if i % 4 == 3 else []
                p = subprocess.Popen([PY] + pyflags + [os.path.join(VERIF_ROOT, "check.py"), prop, "--shard", sp, op],
                                     stdout=lf, stderr=subprocess.STDOUT, stdin=subprocess.DEVNULL,
                                     start_new_session=True, env=env_i, cwd=VERIF_ROOT)
                lf.close()
                running[i] = (p, time.monotonic(), spec, op, lp)
            time.sleep(0.05)
            for i in list(running):
                p, t0, spec, op, lp = running[i]
                try:
                    # peek without reaping: the shard's pid is the id of its process group and must not be recycled
                    # before the group has been killed
                    exited = os.waitid(os.P_PID, p.pid, os.WEXITED | os.WNOWAIT | os.WNOHANG)
                except ChildProcessError:
                    exited = True
                if exited:
                    _kill_group_only(p)
                rc = p.poll()
                if rc is None and time.monotonic() - t0 < shard_timeout:
                    continue
                note = ""
                if rc is None:
                    _kill_group(p)
                    p.wait()
                    note = f"shard exceeded {shard_timeout}s wall limit (inconclusive, not a verdict)"
                else:
                    _kill_group(p)  # stragglers of the shard's own children
                res = None
                if os.path.exists(op):
                    try:
                        with open(op) as f:
                            res = json.load(f)
                    except Exception as e:  # truncated file
                        note += f" unreadable shard output: {e}"
                if res is None and not note:
                    try:
                        with open(lp, "r", errors="replace") as f:
                            tail = f.read()[-1500:]
                    except OSError:
                        tail = ""
                    note = f"shard exited rc={rc} without result; log tail: {tail}"
                done[i] = (spec, res, note)
                del running[i]
                shutil.rmtree(os.path.join(work, f"tmp{i}"), ignore_errors=True)
    finally:
        for i in list(running):
            _kill_group(running[i][0])
        shutil.rmtree(work, ignore_errors=True)
    return done


# --------------------------------------------------------------------------------------
# verdict + evidence


def _no_huge_ints(x):
    """Evidence is read by programs that keep the interpreter's limit on int <-> str conversion: an int of more than 1000
    digits in a sample is written as a short description."""
    if isinstance(x, bool):
        return x
    if isinstance(x, int) and abs(x) >= 10 ** 1000:
        return f"<int of {len(str(abs(x)))} digits>"
    if isinstance(x, dict):
        return {(k if not (isinstance(k, int) and not isinstance(k, bool) and abs(k) >= 10 ** 1000) else f"<int of {len(str(abs(k)))} digits>"): _no_huge_ints(v)
                for k, v in x.items()}
    if isinstance(x, (list, tuple)):
        return [_no_huge_ints(v) for v in x]
    return x


def finish(mod, tier, seed, shard_results, t0, extra_coverage=None):
    """Merges shard results, writes evidence, prints verdict lines, returns exit code."""
    prop = mod.PROP
    evaluations = 0
    distinct = set()
    violations = []
    inconclusive = []
    samples = []
    counters = {}
    sets = {}
    broken = []
    for spec, res, note in shard_results:
        if res is None:
            broken.append({"spec": spec, "note": note})
            continue
        if note:
            inconclusive.append({"reason": note, "case": spec})
        evaluations += res["evaluations"]
        distinct.update(res["distinct"])
        violations.extend(res["violations"])
        inconclusive.extend(res["inconclusive"])
        for s in res["samples"]:
            if len(samples) < 4:
                samples.append(s)
        for k, v in res["counters"].items():
            counters[k] = counters.get(k, 0) + v
        for k, v in res.get("sets", {}).items():
            sets.setdefault(k, set()).update(v)

    # classify violations against the committed known-findings file (never written here)
    new_violations = []
    known_hits = {}
    for v in violations:
        e = known_entry(prop, v["mechanism"])
        if e is not None:
            known_hits.setdefault(v["mechanism"], []).append(v)
        else:
            new_violations.append(v)

    replay_paths = []
    if new_violations:
        rdir = os.path.join(VERIF_ROOT, "replays", prop)
        os.makedirs(rdir, exist_ok=True)
        by_mech = {}
        for v in new_violations:
            by_mech.setdefault(v["mechanism"], []).append(v)
        for mech, vs in by_mech.items():
            # smallest witness first; one replay file per mechanism (plus count)
            vs.sort(key=lambda x: len(json.dumps(x["replay"], default=repr)))
            v = vs[0]
            name = f"{tier}-seed{seed}-{mech}.json"
            path = os.path.join(rdir, name)
            with open(path, "w") as f:
                json.dump({"property": prop, "mechanism": mech, "summary": v["summary"], "tier": tier, "seed": seed,
                           "occurrences_in_run": len(vs), "replay": v["replay"]}, f, indent=1, default=repr)
            replay_paths.append((mech, path, v["summary"], len(vs)))

    coverage = {
        "evaluations": int(evaluations),
        "distinct_nontrivial": len(distinct),
        "rule": mod.RULE,
        "samples": samples if samples else [],
        "counters": counters,
        "inconclusive_cases": len(inconclusive),
        "inconclusive_samples": inconclusive[:5],
        "broken_shards": broken[:5],
        "known_findings_hit": {k: len(v) for k, v in known_hits.items()},
        "violation_mechanisms": sorted({v["mechanism"] for v in new_violations}),
    }
    for k, v in sets.items():
        coverage["n_" + k] = len(v)
        coverage[k + "_sample"] = sorted(v)[:40]
    if extra_coverage:
        coverage.update(extra_coverage)
    ev = {
        "property_id": prop, "tier": tier, "seed": int(seed), "level": mod.LEVEL,
        "coverage": coverage, "assumptions": list(mod.ASSUMPTIONS),
        "wall_s": round(time.time() - t0, 2), "violations": len(new_violations),
    }
    os.makedirs(os.path.join(VERIF_ROOT, "evidence"), exist_ok=True)
    evp = os.path.join(VERIF_ROOT, "evidence", f"{prop}.json")
    tmp = evp + ".tmp"
    with open(tmp, "w") as f:
        json.dump(_no_huge_ints(ev), f, indent=1, default=repr)
    os.replace(tmp, evp)

    for mech, vs in sorted(known_hits.items()):
        e = known_entry(prop, mech)
        print(f"KNOWN-FINDING: property={prop} {mech}: {e.get('what_fails', vs[0]['summary'])} "
              f"(observed {len(vs)}x in this run)")
    print(f"[{prop}] tier={tier} seed={seed} evaluations={evaluations} distinct={len(distinct)} "
          f"violations={len(new_violations)} inconclusive={len(inconclusive)} broken_shards={len(broken)} "
          f"wall={ev['wall_s']}s")
    for k in sorted(counters):
        print(f"    {k} = {counters[k]}")
    if new_violations:
        for mech, path, summary, n in replay_paths:
            print(f"    mechanism {mech} ({n}x): {summary if len(summary) < 1500 else summary[:1200] + " ...(" + str(len(summary)) + " characters)"}")
            print(f"VIOLATION property={prop} replay={path}")
        return 1
    if broken:
        print(f"INCONCLUSIVE property={prop}: {len(broken)} shard(s) produced no result: {broken[0]['note'][:600]}")
        return 2
    total_cases = max(1, counters.get("cases", evaluations))
    if evaluations == 0 or len(distinct) < 2:
        print(f"INCONCLUSIVE property={prop}: the deciding monitor observed nothing")
        return 2
    if len(inconclusive) > 0.05 * total_cases:
        print(f"INCONCLUSIVE property={prop}: {len(inconclusive)} of {total_cases} cases inconclusive")
        return 2
    return 0


def shard_main(mod, spec_path, out_path):
    with open(spec_path) as f:
        spec = json.load(f)
    if os.environ.get("VF_LIB_WARNINGS_AS_ERRORS"):
        import warnings
        warnings.filterwarnings("error", module=r"windpyutils(\..*)?")
    if os.environ.get("VF_DEBUG_LOGGING"):
        import logging
        logging.basicConfig(level=logging.DEBUG, stream=open(os.devnull, "w"), force=True)
    try:
        res = mod.run_shard(spec)
    except BaseException:
        # a crash of the harness is not a verdict about the repository
        traceback.print_exc()
        sys.exit(3)
    if sys.flags.optimize and isinstance(res, dict):
        res.setdefault("counters", {})["shards_run_under_python_-O"] = 1
    if os.environ.get("VF_LIB_WARNINGS_AS_ERRORS") and isinstance(res, dict):
        res.setdefault("counters", {})["shards_run_with_library_warnings_as_errors"] = 1
    if os.environ.get("VF_DEBUG_LOGGING") and isinstance(res, dict):
        res.setdefault("counters", {})["shards_run_with_DEBUG_logging_enabled"] = 1
    tmp = out_path + ".tmp"
    with open(tmp, "w") as f:
        json.dump(res, f, default=repr)
    os.replace(tmp, out_path)
