"""
C19 - generic sequence helpers equal their brute-force definitions.

Monitor shape: reference-model oracle evaluated on an enumerated domain (every input of the
bounded domain is executed on the real function and compared with an independent definition).
"""
import itertools
import sys

from vf import common, instr
from vf.common import ShardResult, Violation
from vf.seq import outcome

PROP = "C19"
LEVEL = "exploration"
RULE = ("every integer 1..3999 (roman numerals, both directions); every sequence over {0,1,2} up to the "
        "tier's length bound as list/tuple/str for sub_seq, search_sub_seq, compare_pos_in_iterables, arg_sort "
        "(both directions); every (n, batch_size) pair up to the bound for Batcher/BatcherIter with single and "
        "tuple inputs (also members of different lengths for BatcherIter: stops at the shortest), plus huge ranges around 2**53 and 2**62. A case is one (function, input); distinct = "
        "distinct (function, input) hashes; all of them are non-trivial in the sense that the oracle compared "
        "a computed result or exception class.")
ASSUMPTIONS = [
    "sub_seq/search_sub_seq are given two sequences of the same type (list==tuple is False in Python)",
    "negative Batcher indices and batch_size<=0 are outside the statement and not judged",
    "reference definitions written independently in this file are the specification",
]
SHARD_TIMEOUT = {"quick": 300, "thorough": 3000}

FAMILIES = ["roman", "subseq-list", "subseq-tuple", "subseq-str", "compare", "argsort", "batcher", "batcher-iter",
            "batcher-huge"]


def plan(tier, seed):
    return [{"tier": tier, "seed": seed, "family": f} for f in FAMILIES]


# ------------------------------------------------------------------ references

_DIG = [["", "I", "II", "III", "IV", "V", "VI", "VII", "VIII", "IX"],
        ["", "X", "XX", "XXX", "XL", "L", "LX", "LXX", "LXXX", "XC"],
        ["", "C", "CC", "CCC", "CD", "D", "DC", "DCC", "DCCC", "CM"],
        ["", "M", "MM", "MMM"]]


def ref_roman(n):
    return _DIG[3][n // 1000] + _DIG[2][n // 100 % 10] + _DIG[1][n // 10 % 10] + _DIG[0][n % 10]


def noncanonical(n):
    """Other spellings of numbers near n that a lenient parser may accept."""
    c = ref_roman(n)
    out = [c.replace("IV", "IIII"), c.replace("IX", "VIIII"), c.replace("XL", "XXXX"), c.replace("XC", "LXXXX"),
           c.replace("CD", "CCCC"), c.replace("CM", "DCCCC"), c.lower()]
    if n % 10 == 9 and 49 <= n < 3999:
        out.append("I" + ref_roman(n + 1))      # IL, IC, IM style
    return [a for a in dict.fromkeys(out) if a != c]


def seqs(alpha, maxlen):
    for ln in range(maxlen + 1):
        for t in itertools.product(alpha, repeat=ln):
            yield t


def occurrences(s1, s2):
    return [(o, o + len(s1)) for o in range(0, len(s2) - len(s1) + 1)
            if all(s2[o + j] == s1[j] for j in range(len(s1)))]


def conv(kind, t):
    if kind == "list":
        return list(t)
    if kind == "tuple":
        return tuple(t)
    return "".join("abc"[x] for x in t)


def _bad(res, mech, summary, case, witness):
    res.violation(mech, summary, {"case": case, "witness": witness})


def check_one(case):
    """Executes one (function, input) case; returns None or (mechanism, summary, witness)."""
    from windpyutils import generic as g
    fam = case["f"]
    if fam == "roman":
        n = case["n"]
        if case.get("after_noncanonical"):
            # numerals that are not canonical but that the parser accepts (additive IIII, subtractive IM ...) are parsed first:
            # int_2_roman of their value is the canonical numeral all the same
            for alt in noncanonical(n):
                v = outcome(g.roman_2_int, alt)
                if v[0] == "ok" and isinstance(v[1], int) and 1 <= v[1] <= 3999:
                    again = outcome(g.int_2_roman, v[1])
                    if again != ("ok", ref_roman(v[1])):
                        return "roman", (f"after roman_2_int({alt!r}) -> {v[1]}: int_2_roman({v[1]}) -> {again}, canonical numeral is "
                                         f"{ref_roman(v[1])}"), {"got": again}
        want = ref_roman(n)
        got = outcome(g.int_2_roman, n)
        if got != ("ok", want):
            return "roman", f"int_2_roman({n}) -> {got}, canonical numeral is {want}", {"got": got}
        back = outcome(g.roman_2_int, want)
        if back != ("ok", n):
            return "roman", f"roman_2_int({want!r}) -> {back}, expected {n}", {"got": back}
        return None
    if fam == "subseq":
        s1, s2 = conv(case["kind"], case["s1"]), conv(case["kind"], case["s2"])
        occ = occurrences(s1, s2)
        got = outcome(g.sub_seq, s1, s2)
        if got != ("ok", bool(occ)):
            return "sub_seq", f"sub_seq({s1!r},{s2!r}) -> {got}, expected {bool(occ)}", {"got": got}
        got = outcome(g.search_sub_seq, s1, s2)
        want = ("exc", "ValueError") if (len(s1) == 0 or len(s2) == 0) else ("ok", occ)
        if got != want:
            return "search_sub_seq", f"search_sub_seq({s1!r},{s2!r}) -> {got}, expected {want}", {"got": got}
        return None
    if fam == "compare":
        a, b = case["a"], case["b"]
        want = sorted(a) == sorted(b)
        forms = [(list(a), list(b)), (iter(list(a)), tuple(b)), ((x for x in a), (x for x in b))]
        for fa, fb in forms:
            got = outcome(g.compare_pos_in_iterables, fa, fb)
            if got != ("ok", want):
                return "compare_pos", f"compare_pos_in_iterables({a},{b}) -> {got}, expected {want}", {"got": got}
        # the caller's own containers: the comparison must not consume or change them (a second comparison of the very
        # same objects, in both argument orders, answers the same)
        la, lb = list(a), list(b)
        for rnd in range(2):
            for x, y, tag in ((la, lb, "a,b"), (lb, la, "b,a")):
                got = outcome(g.compare_pos_in_iterables, x, y)
                if got != ("ok", want) or la != list(a) or lb != list(b):
                    return "compare_pos", (f"compare_pos_in_iterables on the caller's lists {a},{b} (call {2 * rnd + (tag == 'b,a') + 1} "
                                           f"on the same objects, order {tag}) -> {got}, expected {want}; lists afterwards {la},{lb}"), {"got": got}
        # containers that are iterables of their keys: dicts with different values, ordered dicts in different orders, Counters
        # with zero counts, sets and frozensets, dict views - only what iteration yields counts
        if len(set(a)) == len(a) and len(set(b)) == len(b):
            import collections
            da, db = {x: i for i, x in enumerate(a)}, {x: -i - 1 for i, x in enumerate(reversed(b))}
            oa, ob = collections.OrderedDict((x, 0) for x in a), collections.OrderedDict((x, 1) for x in reversed(b))
            ca, cb = collections.Counter({x: 0 for x in a}), collections.Counter({x: 2 for x in b})
            for fa, fb, what in ((da, db, "two dicts"), (oa, ob, "two OrderedDicts"), (ca, cb, "two Counters"), (set(a), frozenset(b), "set / frozenset"),
                                 (da.keys(), db, "keys view / dict"), (da, list(b), "dict / list")):
                got = outcome(g.compare_pos_in_iterables, fa, fb)
                if got != ("ok", want):
                    return "compare_pos", (f"compare_pos_in_iterables({fa!r}, {fb!r}) ({what}: iteration yields {list(fa)} and {list(fb)}) -> {got}, "
                                           f"expected {want}"), {"got": got}
        # unhashable elements (lists) and a mix of hashable / unhashable ones, also through one-shot iterables
        # ... and elements that are only partially ordered (frozensets: `<` is the subset test) or not ordered at all (complex)
        for wrap in (lambda x: [x], lambda x: [x] if x else x, lambda x: frozenset([x]), lambda x: frozenset([x, -1 - x]),
                     lambda x: complex(x, 1)):
            ua, ub = [wrap(x) for x in a], [wrap(x) for x in b]
            for fa, fb in ((list(ua), list(ub)), (iter(list(ua)), list(ub)), ((x for x in ua), iter(list(ub)))):
                got = outcome(g.compare_pos_in_iterables, fa, fb)
                if got != ("ok", want):
                    return "compare_pos", (f"compare_pos_in_iterables({ua},{ub}) (unhashable elements, "
                                           f"{type(fa).__name__} / {type(fb).__name__}) -> {got}, expected {want}"), {"got": got}
        return None
    if fam == "argsort":
        s = case["s"]
        for rev in (False, True):
            want = sorted(range(len(s)), key=(lambda i: (-s[i], i)) if rev else (lambda i: (s[i], i)))
            for form in (list(s), tuple(s)):
                got = outcome(g.arg_sort, form, rev)
                if got != ("ok", want):
                    return "arg_sort", f"arg_sort({form}, reverse={rev}) -> {got}, stable order is {want}", {"got": got}
        return None
    if fam == "batcher":
        n, b, width = case["n"], case["b"], case["w"]
        base = [list(range(k * 1000, k * 1000 + n)) for k in range(max(width, 1))]
        if (n + b) % 4 == 1:
            # None and falsy values are elements like any other (also in lock-step inputs)
            for k, x in enumerate(base):
                for j in range(k % 3, n, 3):
                    x[j] = [None, 0, "", False, (), 0.0][(j + k) % 6]
        data = base[0] if width == 0 else tuple(base)
        nb = (n + b - 1) // b
        got = outcome(lambda: len(g.Batcher(data, b)))
        if got != ("ok", nb):
            return "batcher", f"len(Batcher(n={n}, batch={b}, tuple_width={width})) -> {got}, ceil is {nb}", {"got": got}
        bt = g.Batcher(data, b)
        got = outcome(lambda: [bt[i] for i in range(nb)])
        if width == 0:
            want = [base[0][i * b:(i + 1) * b] for i in range(nb)]
        else:
            want = [tuple(x[i * b:(i + 1) * b] for x in base) for i in range(nb)]
        if got != ("ok", want):
            return "batcher", f"Batcher(n={n}, batch={b}, w={width}) batches -> {str(got)[:200]}", {"want": want}
        got = outcome(lambda: list(bt))
        if got != ("ok", want):
            return "batcher", f"list(Batcher(n={n}, batch={b}, w={width})) -> {str(got)[:200]}", {"want": want}
        for extra in (nb, nb + 1):
            got = outcome(lambda: bt[extra])
            if got != ("exc", "IndexError"):
                return "batcher", f"Batcher(n={n}, batch={b})[{extra}] -> {got}, expected IndexError", {}
        for bi, batch in enumerate(want):
            first = batch if width == 0 else batch[0]
            if len(first) == 0 or (len(first) != b and bi != nb - 1):
                raise AssertionError("reference itself wrong")
        # the Batcher is a view of the caller's sequence(s), not a copy: after the caller appended to them, the batches and
        # the number of batches describe ONE input - the grown one (or, for an implementation that copies, the one at
        # construction time) - never a mixture of old count and new content
        grow = 1 + (n + b) % 3
        for k, x in enumerate(base):
            x.extend(range(k * 1000 + n, k * 1000 + n + grow))
        n2 = n + grow
        nb2 = (n2 + b - 1) // b
        if width == 0:
            want2 = [base[0][i * b:(i + 1) * b] for i in range(nb2)]
        else:
            want2 = [tuple(x[i * b:(i + 1) * b] for x in base) for i in range(nb2)]
        got = (outcome(lambda: len(bt)), outcome(lambda: list(bt)), outcome(lambda: [bt[i] for i in range(len(bt))]))
        if got != (("ok", nb2), ("ok", want2), ("ok", want2)) and got != (("ok", nb), ("ok", want), ("ok", want)):
            return "batcher", (f"Batcher(n={n}, batch={b}, w={width}) after the caller appended {grow} item(s): (len, iteration, "
                               f"indexing) -> {str(got)[:300]}; neither the grown input ({nb2} batches) nor the original one ({nb})"), {}
        return None
    if fam == "batcher-iter":
        n, b, width = case["n"], case["b"], case["w"]
        base = [list(range(k * 1000, k * 1000 + n)) for k in range(max(width, 1))]
        if (n + b) % 4 == 1:
            # None and falsy values are elements like any other (also in lock-step inputs)
            for k, x in enumerate(base):
                for j in range(k % 3, n, 3):
                    x[j] = [None, 0, "", False, (), 0.0][(j + k) % 6]
        nb = (n + b - 1) // b
        if width == 0:
            want = [base[0][i * b:(i + 1) * b] for i in range(nb)]
            forms = [lambda: base[0], lambda: iter(base[0]), lambda: (x for x in base[0])]
        else:
            want = [tuple(x[i * b:(i + 1) * b] for x in base) for i in range(nb)]

            class _GetItemOnly:
                """Iterable through the old sequence protocol only (__getitem__ with 0, 1, 2 ... until IndexError), no __iter__."""

                def __init__(self, items):
                    self._items = list(items)

                def __getitem__(self, i):
                    return self._items[i]
            forms = [lambda: tuple(base), lambda: tuple(iter(x) for x in base), lambda: tuple(_GetItemOnly(x) for x in base),
                     lambda: (base[0],) + tuple(_GetItemOnly(x) for x in base[1:])]
        for mk in forms:
            got = outcome(lambda: list(g.BatcherIter(mk(), b)))
            if got != ("ok", want):
                return "batcher_iter", f"BatcherIter(n={n}, batch={b}, w={width}) -> {str(got)[:200]}", {"want": want}
        if width >= 2:
            # members of different lengths: documented to stop when the shortest one is finished, batches stay in lock-step
            for cut in (0, 1, n // 2):
                if cut >= n:
                    continue
                short = n - cut - 1 if n - cut - 1 >= 0 else 0
                lens = [n, short, n][:width] if width == 3 else [n, short]
                members = [base[k][:lens[k]] for k in range(width)]
                m = min(lens)
                want2 = [tuple(x[i * b:min((i + 1) * b, m)] for x in members) for i in range((m + b - 1) // b)]
                for mk2 in (lambda: tuple(members), lambda: tuple(iter(x) for x in members)):
                    got = outcome(lambda: list(g.BatcherIter(mk2(), b)))
                    if got != ("ok", want2):
                        return "batcher_iter", (f"BatcherIter(tuple of lengths {lens}, batch={b}) -> {str(got)[:200]}, expected "
                                                f"lock-step batches up to the shortest member: {str(want2)[:200]}"), {}
        # a one-shot input consumed in rounds (some batches, a break, then the rest in a second loop over the same object):
        # the rounds together are the batches of the input
        for stop_after in (1, 2):
            if nb <= stop_after:
                continue
            src = iter(base[0]) if width == 0 else tuple(iter(x) for x in base)
            bi = g.BatcherIter(src, b)

            def rounds():
                out = []
                for k, batch in enumerate(bi):
                    out.append(batch)
                    if k + 1 == stop_after:
                        break
                return out + list(bi)
            got = outcome(rounds)
            if got != ("ok", want):
                return "batcher_iter", (f"BatcherIter(one-shot input, n={n}, batch={b}, w={width}) consumed in two rounds ({stop_after} batches, "
                                        f"then the rest) -> {str(got)[:200]}"), {"want": want}
        # re-iterable input (sequences): every pass over the same BatcherIter object cuts the same batches, also
        # after an abandoned pass
        bi = g.BatcherIter(base[0] if width == 0 else tuple(base), b)
        for _ in bi:
            break
        for p in (1, 2):
            got = outcome(lambda: list(bi))
            if got != ("ok", want):
                return "batcher_iter", (f"BatcherIter(n={n}, batch={b}, w={width}) pass {p} over the same object (sequence "
                                        f"input) -> {str(got)[:200]}"), {"want": want}
        return None
    if fam == "batcher-huge":
        n, b, width = case["n"], case["b"], case["w"]
        data = range(n) if width == 0 else tuple(range(n) for _ in range(width))
        nb = (n + b - 1) // b
        got = outcome(lambda: len(g.Batcher(data, b)))
        if nb <= sys.maxsize and got != ("ok", nb):
            mech = "batcher-float-ceil" if n > 2 ** 53 or nb > 2 ** 53 else "batcher"
            return mech, f"len(Batcher(range({n}), {b})) -> {got}, integer ceiling is {nb}", {"got": got}
        bt = g.Batcher(data, b)
        if nb >= 1:
            last = outcome(lambda: bt[nb - 1])
            wl = range(n)[(nb - 1) * b:nb * b]
            want = ("ok", wl if width == 0 else tuple(wl for _ in range(width)))
            if last != want:
                mech = "batcher-float-ceil" if n > 2 ** 53 else "batcher"
                return mech, f"Batcher(range({n}), {b})[{nb - 1}] (last batch) -> {last}, expected {want}", {}
        got = outcome(lambda: bt[nb])
        if got != ("exc", "IndexError"):
            mech = "batcher-float-ceil" if n > 2 ** 53 else "batcher"
            return mech, f"Batcher(range({n}), {b})[{nb}] -> {got}, expected IndexError", {}
        return None
    raise ValueError(fam)


def cases_of(family, tier):
    thorough = tier == "thorough"
    if family == "roman":
        for n in range(1, 4000, 1):
            if (n % 10 in (4, 9) or n // 10 % 10 in (4, 9) or n // 100 % 10 in (4, 9)) and n % 3 == 0:
                yield {"f": "roman", "n": n, "after_noncanonical": True}       # (before the value's canonical numeral was ever produced)
        for n in range(1, 4000):
            yield {"f": "roman", "n": n}
    elif family.startswith("subseq-"):
        kind = family.split("-")[1]
        l2, l1 = (7, 5) if thorough else (6, 3)
        for s2 in seqs((0, 1, 2), l2):
            for s1 in seqs((0, 1, 2), min(l1, len(s2) + 1)):
                yield {"f": "subseq", "kind": kind, "s1": list(s1), "s2": list(s2)}
    elif family == "compare":
        m = 5 if thorough else 4
        allseq = list(seqs((0, 1, 2), m))
        for a in allseq:
            for b in allseq:
                if abs(len(a) - len(b)) <= 1:
                    yield {"f": "compare", "a": list(a), "b": list(b)}
    elif family == "argsort":
        for s in seqs((0, 1, 2), 9 if thorough else 7):
            yield {"f": "argsort", "s": list(s)}
    elif family in ("batcher", "batcher-iter"):
        nmax, bmax = (70, 75) if thorough else (40, 45)
        for n in range(0, nmax + 1):
            for b in range(1, bmax + 1):
                for w in (0, 1, 3) if (n + b) % 3 == 0 or thorough else (0,):
                    yield {"f": family, "n": n, "b": b, "w": w}
    elif family == "batcher-huge":
        bases = [2 ** 53, 10 ** 17, 2 ** 62, 2 ** 63 - 2, 3 * 2 ** 54]
        for base in bases:
            for d in range(-3, 4):
                n = base + d
                if n > sys.maxsize:
                    continue
                for b in (1, 2, 3, 7, 10, 2 ** 20, 2 ** 31 + 1, base // 3 + 1, base - 1, base, base + 1):
                    if b <= 0:
                        continue
                    for w in (0, 2):
                        yield {"f": "batcher-huge", "n": n, "b": b, "w": w}


def run_shard(spec):
    instr.install(["windpyutils.generic"])
    res = ShardResult()
    fam = spec["family"]
    per_mech = {}
    for case in cases_of(fam, spec["tier"]):
        res.evaluations += 1
        res.count("cases")
        res.count("cases_" + case["f"])
        res.seen(case)
        with instr.budget(2_000_000):
            try:
                bad = check_one(case)
            except instr.StepBudgetExceeded:
                bad = ("step-budget-exceeded", f"{case} did not finish within 2e6 repository statements", {})
        if bad:
            mech, summary, witness = bad
            per_mech[mech] = per_mech.get(mech, 0) + 1
            if per_mech[mech] <= 20:
                res.violation(mech, summary, {"case": case, "witness": witness})
        elif res.evaluations % 5000 == 1:
            res.sample(case, limit=2)
    res.count("repo_line_events", instr.S.total)
    return res.as_dict()


def extra_coverage(tier, seed):
    return {"exhaustive": True,
            "explanation": "bounded domains enumerated completely; bounds differ per tier (see rule)"}


def replay(doc):
    instr.install(["windpyutils.generic"])
    bad = check_one(doc["replay"]["case"])
    if bad:
        return True, f"reproduced: {bad[0]}: {bad[1]}"
    return False, "case agrees with the reference"


RULE += ' Also (wave 9): non-canonical numerals (IIII, VIIII, IM ...) parsed before the canonical numeral of their value was produced; one-shot BatcherIter inputs consumed in two rounds.'
