"""
C13 - Records survive save/load and record files are sequences of records.

Monitor shape: round-trip oracle load(save(r)) == r and single-line oracle on generated records of
several JSON/CSV/TSV record classes saved alternately (they share one class-level buffer); record
files compared with the list of records after index / slice / iteration reads; mutable record files
edited, saved and reopened buffered and memory-mapped.
"""
import dataclasses
import os
import shutil
from dataclasses import dataclass, field
from typing import Any

from vf import common, instr, seq
from vf.common import Violation
from vf.seq import outcome

PROP = "C13"
LEVEL = "exploration"
RULE = ("seeded cases of two kinds. 'roundtrip': 40 records drawn alternately from 2 JSON, 3 CSV and 2 TSV record "
        "classes plus JSON/CSV/TSV record classes that extend another record class (base classes used first), slots=True record classes and a record class with a used cached_property; JSON values nested to depth 3 from str (all planes, lone surrogates, control chars, quotes, "
        "backslashes), ints (incl. >2**64), finite floats, bools, None, lists, str-keyed dicts; CSV/TSV fields int, "
        "float, str without '\\n'/'\\r' but with delimiters, quotes, backslashes, blanks, empty, NUL, non-ASCII. "
        "'file': 0-8 records of one class written one per line (last line with or without terminator), read through RecordFile / MemoryMappedRecordFile "
        "(index, negative index, slices, iterables, iteration), then a mutable record file is edited (set, insert, "
        "append, del, pop, extend), saved and reopened with both variants. distinct_nontrivial = distinct records "
        "round-tripped + distinct file cases.")
ASSUMPTIONS = [
    "save(r) may carry ONE trailing line terminator ('\\r\\n' from csv, or '\\n'); the rest must contain no line break",
    "JSON domain excludes NaN/inf, tuples, non-str dict keys and nested dataclasses (statement's list of JSON types)",
    "CSV/TSV str fields exclude '\\n' and '\\r'; field types are real classes (int, float, str), not string annotations",
    "files are UTF-8 (PYTHONUTF8=1); CSV / TSV strings with lone surrogates are not written to files (JSON text escapes "
    "them, so JSON records holding them are)",
    "a record handed out by a record file belongs to the caller: changing it does not change what the file returns next",
]
NCASES = {"quick": 3200, "thorough": 200000}
NSHARDS = 16
SHARD_TIMEOUT = {"quick": 300, "thorough": 3600}
MOD = "vf.checks.c13"
_SCRATCH = None
_CLS = {}

STR_PIECES = ["", "a", "abc", " ", "  lead", "trail  ", ",", ";", "\t", '"', '""', "'", "\\", "\\n", "\\\"", "a,b", 'say "hi"',
              "ž", "日本", "😀", "\u00a0", "\u200b", "\x00", "\x01", "\x7f", "x" * 50, "-", "1", "1.5", "null", "true", "{}",
              "[1]", "=1+1", "#", "ß", "\ufeff", "\ufeffid"]
JSON_ONLY_PIECES = ["\n", "\r", "\r\n", "\ud800", "\udfff", "\u2028", "\x85", "\x0b"]


def classes():
    if not _CLS:
        from windpyutils.files import JsonRecord, CSVRecord, TSVRecord

        @dataclass
        class J1(JsonRecord):
            a: Any
            b: Any = None

        @dataclass
        class J2(JsonRecord):
            name: str
            values: list = field(default_factory=list)
            meta: dict = field(default_factory=dict)
            flag: bool = False

        @dataclass
        class C1(CSVRecord):
            i: int
            f: float
            s: str

        @dataclass
        class C2(CSVRecord):
            s: str

        @dataclass
        class C3(CSVRecord):
            s1: str
            s2: str
            n: int
            s3: str

        @dataclass
        class T1(TSVRecord):
            s: str
            f: float

        @dataclass
        class T2(TSVRecord):
            a: str
            b: str
            c: int
        # record classes that extend another concrete record class; the base classes are used first (as a program
        # that loads plain records before extended ones would): anything cached per class must not leak to subclasses
        @dataclass
        class JB(JsonRecord):
            ident: int
            name: str = ""

        @dataclass
        class JX(JB):
            score: Any = None
            tags: list = field(default_factory=list)

        @dataclass
        class CB(CSVRecord):
            ident: int
            name: str

        @dataclass
        class CX(CB):
            score: float
            note: str

        @dataclass
        class TB(TSVRecord):
            ident: int
            name: str

        @dataclass
        class TX(TB):
            note: str
            score: float
        # record classes whose instances have no (or a richer) __dict__
        @dataclass(slots=True)
        class JS(JsonRecord):
            a: int
            b: str
            c: Any = None

        @dataclass(slots=True)
        class TS(TSVRecord):
            s: str
            n: int

        import functools

        @dataclass
        class CP(CSVRecord):
            n: int
            s: str

            @functools.cached_property
            def weight(self):
                return len(self.s) * 2 + 1
        for b in (JB(1, "b"), CB(1, "b"), TB(1, "b")):
            type(b).load(b.save())

        @dataclass
        class JF(JsonRecord):
            x: float            # an annotation is a hint: the field may well hold a whole number (JSON has one number type)
            y: int
            z: Any = None
        _CLS.update(JS=JS, TS=TS, CP=CP, JF=JF)
        _CLS.update(J1=J1, J2=J2, C1=C1, C2=C2, C3=C3, T1=T1, T2=T2, JB=JB, JX=JX, CB=CB, CX=CX, TB=TB, TX=TX)
    return _CLS


def gen_str(rng, json_ok, file_safe=False):
    # CSV / TSV fields: no line breaks (\n, \r), but the characters that only str.splitlines() takes for line ends are ordinary
    pieces = STR_PIECES + (JSON_ONLY_PIECES if json_ok else ["\x0b", "\x0c", "\x1c", "\x85", "\u2028"])
    s = "".join(rng.choice(pieces) for _ in range(rng.choice([0, 1, 1, 2, 3, 5])))
    if rng.random() < 0.1:
        s += chr(rng.choice([rng.randrange(0x20, 0x7f), rng.randrange(0xa0, 0x2000), rng.randrange(0x3000, 0xd7ff),
                             rng.randrange(0xe000, 0xfffd), rng.randrange(0x10000, 0x10ffff)]))
    if not json_ok:
        s = s.replace("\n", "").replace("\r", "")
    # a high surrogate directly followed by a low one is generated only by the dedicated case (see gen_case):
    # JSON text cannot tell that pair from the astral character it encodes (known finding of C13)
    s = _split_surrogate_pairs(s)
    if file_safe and not json_ok:
        # raw lone surrogates cannot be written to a UTF-8 file (CSV / TSV); JSON text escapes them
        s = "".join(ch for ch in s if not (0xd800 <= ord(ch) <= 0xdfff))
    return s


def _split_surrogate_pairs(s):
    out = []
    for ch in s:
        if out and 0xd800 <= ord(out[-1]) <= 0xdbff and 0xdc00 <= ord(ch) <= 0xdfff:
            out.append("_")
        out.append(ch)
    return "".join(out)


def _merge_surrogate_pairs(x):
    """What JSON's \\uXXXX escapes do to adjacent high+low surrogates, applied recursively."""
    if isinstance(x, str):
        return x.encode("utf-16", "surrogatepass").decode("utf-16", "surrogatepass")
    if isinstance(x, list):
        return [_merge_surrogate_pairs(v) for v in x]
    if isinstance(x, dict):
        return {_merge_surrogate_pairs(k): _merge_surrogate_pairs(v) for k, v in x.items()}
    return x


def gen_num(rng, kind):
    if kind == "int":
        return rng.choice([0, 1, -1, 7, -123456, 2 ** 31, 2 ** 63, -2 ** 64 - 1, 10 ** 30, rng.randrange(-1000, 1000)])
    return rng.choice([0.0, -0.0, 1.5, -2.25, 1e-320, 5e-324, 1.7976931348623157e308, 0.1, 1 / 3, 1e16, 123456789.123456789,
                       float(rng.randrange(-100, 100)), rng.random() * 10 ** rng.randrange(-10, 10)])


def gen_json(rng, depth, file_safe):
    r = rng.random()
    if depth <= 0 or r < 0.45:
        k = rng.randrange(6)
        if k == 0:
            return gen_str(rng, True, file_safe)
        if k == 1:
            return gen_num(rng, "int")
        if k == 2:
            return gen_num(rng, "float")
        if k == 3:
            return rng.random() < 0.5
        if k == 4:
            return None
        return gen_str(rng, True, file_safe)
    if r < 0.75:
        return [gen_json(rng, depth - 1, file_safe) for _ in range(rng.randrange(0, 4))]
    return {gen_str(rng, True, file_safe): gen_json(rng, depth - 1, file_safe) for _ in range(rng.randrange(0, 4))}


def gen_record(rng, cname, file_safe=False):
    """JSON-able spec of a record: [class name, list of constructor args]."""
    if cname == "J1":
        return [cname, [gen_json(rng, 3, file_safe), gen_json(rng, 2, file_safe)]]
    if cname == "J2":
        return [cname, [gen_str(rng, True, file_safe), [gen_json(rng, 1, file_safe) for _ in range(rng.randrange(3))],
                        {gen_str(rng, True, file_safe): gen_json(rng, 1, file_safe) for _ in range(rng.randrange(3))},
                        rng.random() < 0.5]]
    if cname == "C1":
        return [cname, [gen_num(rng, "int"), gen_num(rng, "float"), gen_str(rng, False, file_safe)]]
    if cname == "C2":
        return [cname, [gen_str(rng, False, file_safe)]]
    if cname == "C3":
        return [cname, [gen_str(rng, False, file_safe), gen_str(rng, False, file_safe), gen_num(rng, "int"),
                        gen_str(rng, False, file_safe)]]
    if cname == "T1":
        return [cname, [gen_str(rng, False, file_safe), gen_num(rng, "float")]]
    if cname == "JS":
        return [cname, [gen_num(rng, "int"), gen_str(rng, True, file_safe), gen_json(rng, 1, file_safe)]]
    if cname == "TS":
        return [cname, [gen_str(rng, False, file_safe), gen_num(rng, "int")]]
    if cname == "CP":
        return [cname, [gen_num(rng, "int"), gen_str(rng, False, file_safe)]]
    if cname in ("JB", "CB", "TB"):
        return [cname, [gen_num(rng, "int"), gen_str(rng, cname == "JB", file_safe)]]
    if cname == "JX":
        return [cname, [gen_num(rng, "int"), gen_str(rng, True, file_safe), gen_json(rng, 1, file_safe),
                        [gen_json(rng, 1, file_safe) for _ in range(rng.randrange(3))]]]
    if cname == "CX":
        return [cname, [gen_num(rng, "int"), gen_str(rng, False, file_safe), gen_num(rng, "float"), gen_str(rng, False, file_safe)]]
    if cname == "TX":
        return [cname, [gen_num(rng, "int"), gen_str(rng, False, file_safe), gen_str(rng, False, file_safe), gen_num(rng, "float")]]
    return [cname, [gen_str(rng, False, file_safe), gen_str(rng, False, file_safe), gen_num(rng, "int")]]


def gen_case(rng, tier, index):
    names = ["J1", "J2", "C1", "C2", "C3", "T1", "T2", "JX", "CX", "TX", "JB", "CB", "TB", "JS", "TS", "CP"]
    if index == 0:
        # dedicated input of the known finding json-adjacent-surrogates-merge
        return {"kind": "roundtrip", "ops": [["J1", ["\ud800\udfff", None]]]}
    if index == 6:
        # one record file of more than a mebibyte (32000 short records): larger than any block a reader may work in
        return {"kind": "file", "cls": "C1", "records": [["C1", [i, float(i % 97), f"r{i}" + "x" * 30]] for i in range(32000)], "ops": [],
                "reads": rng.randrange(1 << 30), "final_nl": True, "big": True}
    if index % 2 == 0:
        ops = [gen_record(rng, rng.choice(names)) for _ in range(40)]
        if index % 4 == 0:
            # ints in a field annotated as float (whole numbers beyond 2**53 among them), floats in a field annotated as int
            import random
            r2 = random.Random(index * 7919 + 13)
            pool = [2 ** 53 + 1, 10 ** 30 + 7, -2 ** 53 - 1, 120, 2 ** 1024 + 1, 0, 0.5, 1e300, 3]
            ops += [["JF", [r2.choice(pool), r2.choice(pool[:6]), r2.choice([None, 2 ** 64 + 1, 1.5])]] for _ in range(6)]
        return {"kind": "roundtrip", "ops": ops, "thread": index % 8 == 4}
    cname = names[(index // 2) % len(names)]
    recs = [gen_record(rng, cname, True) for _ in range(rng.choice([0, 1, 2, 3, 5, 8]))]
    ops = []
    for _ in range(rng.randint(0, 12)):
        ops.append([rng.choice(["set", "insert", "append", "del", "pop", "extend"]), rng.randrange(1 << 16),
                    gen_record(rng, cname, True)])
    return {"kind": "file", "cls": cname, "records": recs, "ops": ops, "reads": rng.randrange(1 << 30),
            "final_nl": rng.random() < 0.6}


def shrinkable(case):
    def rebuild(ops):
        c = dict(case)
        c["ops"] = ops
        return c
    return list(case["ops"]), rebuild


def describe(case):
    if case["kind"] == "roundtrip":
        return {"kind": "roundtrip", "records": [repr(o)[:120] for o in case["ops"][:4]]}
    return {"kind": "file", "cls": case["cls"], "records": [repr(r)[:100] for r in case["records"][:3]],
            "edits": [o[0] for o in case["ops"]]}


def mk(spec):
    r = classes()[spec[0]](*spec[1])
    if spec[0] == "CP":
        _ = r.weight          # a cached property that was already used lives in the instance __dict__, it is no field
    return r


def strip_terminator(s):
    if s.endswith("\r\n"):
        return s[:-2]
    if s.endswith("\n"):
        return s[:-1]
    return s


def _surrogate_only_difference(back, r):
    """The known finding (adjacent surrogate halves merge in JSON) must not be re-reported through the second save."""
    import dataclasses
    try:
        args = [getattr(r, f.name) for f in dataclasses.fields(r)]
        return type(r)(*_merge_surrogate_pairs(args)) == back
    except Exception:
        return False


def check_roundtrip(spec, res):
    r = mk(spec)
    got = outcome(lambda: r.save())
    if got[0] != "ok" or not isinstance(got[1], str):
        raise Violation("save-raised", f"{spec[0]}{tuple(spec[1])!r}.save() -> {_short(got)}", {})
    line = got[1]
    body = strip_terminator(line)
    if "\n" in body or "\r" in body or (spec[0][0] == "J" and len(body.splitlines()) > 1):
        raise Violation("save-multiline", f"save() of {_short(r)} spans several lines: {_short(line)}", {})
    for form in (line, body):
        back = outcome(lambda: type(r).load(form))
        if back[0] != "ok" or back[1] != r or type(back[1]) is not type(r):
            mech = "roundtrip-mismatch"
            if back[0] == "ok" and spec[0][0] == "J" and type(back[1]) is type(r):
                try:
                    if mk([spec[0], _merge_surrogate_pairs(spec[1])]) == back[1]:
                        mech = "json-adjacent-surrogates-merge"
                except Exception:
                    pass
            raise Violation(mech, f"load(save(r)) -> {_short(back)} for r={_short(r)}; saved text {_short(form)}", {})
    res.evaluations += 1
    res.count("roundtrips_" + spec[0])
    res.seen(("rt", spec[0], repr(spec[1])))
    # the caller goes on working with the record it has saved - a nested list / dict changed in place, a string field
    # re-assigned - and saves it again: the round trip holds for the record as it is now
    import copy
    import dataclasses
    changed = []
    r = mk(copy.deepcopy(spec))         # (the spec itself is used again elsewhere: work on a record of its own)
    r.save()
    for f in dataclasses.fields(r):
        v = getattr(r, f.name)
        if isinstance(v, list) and "list" not in changed:
            v.append("later")
            changed.append("list")
        elif isinstance(v, dict) and "dict" not in changed:
            v["later"] = 1
            changed.append("dict")
        elif isinstance(v, str) and "str" not in changed and f.name != "name":
            setattr(r, f.name, v + "x")
            changed.append("str")
    if changed:
        got2 = outcome(lambda: r.save())
        back = outcome(lambda: type(r).load(got2[1])) if got2[0] == "ok" else got2
        if back[0] != "ok" or back[1] != r:
            if not (back[0] == "ok" and spec[0][0] == "J" and _surrogate_only_difference(back[1], r)):
                raise Violation("roundtrip-mismatch", f"a record saved once, then changed by the caller ({', '.join(changed)} field) and saved again: "
                                f"load(save(r)) -> {_short(back)} for r={_short(r)}; first text {_short(body)}, second {_short(got2)}", {})
        res.count("records_changed_and_saved_again")
    return body


def run_case(case, res):
    with instr.budget(20_000_000 if not case.get("big") else 200_000_000):
        try:
            if case["kind"] == "roundtrip" and case.get("thread"):
                # the records are saved and loaded from two threads, one after the other (never at the same time)
                import threading
                box = []

                def work(part):
                    try:
                        for spec in part:
                            check_roundtrip(spec, res)
                    except BaseException as e:
                        box.append(e)
                half = len(case["ops"]) // 2
                for part in (case["ops"][:half], case["ops"][half:]):
                    t = threading.Thread(target=work, args=(part,), name="vf:saver")
                    t.start()
                    t.join()
                    if box:
                        raise box[0]
                    work(part[:3])          # and again from the main thread
                    if box:
                        raise box[0]
                res.count("roundtrip_cases_split_over_threads")
            elif case["kind"] == "roundtrip":
                for spec in case["ops"]:
                    check_roundtrip(spec, res)
            else:
                run_file_case(case, res)
        except instr.StepBudgetExceeded:
            raise Violation("operation-does-not-end", "case exceeded the statement budget", {})


def scratch():
    global _SCRATCH
    if _SCRATCH is None:
        _SCRATCH = common.scratch_dir("vf-c13-")
    return _SCRATCH


def run_file_case(case, res):
    import windpyutils.files as wf
    R = classes()[case["cls"]]
    d = scratch()
    path = os.path.join(d, "records.txt")
    recs = [mk(s) for s in case["records"]]
    if case.get("big"):
        lines = [r.save().rstrip("\r\n") for r in recs]
    else:
        lines = [check_roundtrip(s, res) for s in case["records"]]
    with open(path, "w", encoding="utf-8", newline="") as f:
        if case.get("final_nl", True):
            for l in lines:
                f.write(l + "\n")
        else:
            f.write("\n".join(lines))      # the last record is not terminated (a file written with join)
    n = len(recs)
    rr = common.rng_for("c13-reads", case["reads"])

    def fail(mech, msg):
        raise Violation(mech, f"{case['cls']}: {msg}", {"records": _short(recs)})

    def read_checks(obj, model, label):
        m = len(model)
        if len(obj) != m:
            fail("file-len", f"{label}: len -> {len(obj)}, {m} records were written")
        g = outcome(lambda: list(obj))
        if g != ("ok", model):
            fail("file-read", f"{label}: iteration -> {_short(g)}, expected {_short(model)}")
        for _ in range(6):
            i = rr.randrange(-m - 1, m + 1) if m else rr.choice([0, -1, 1])
            g, w = outcome(lambda: obj[i]), outcome(lambda: model[i])
            if g != w:
                fail("file-read", f"{label}: f[{i}] -> {_short(g)}, expected {_short(w)}")
            res.evaluations += 1
        sl = slice(rr.choice([None, 0, 1, -1]), rr.choice([None, m, -1, 2]), rr.choice([None, 1, 2, -1]))
        g = outcome(lambda: obj[sl])
        if g != ("ok", model[sl]):
            fail("file-read", f"{label}: f[{sl}] -> {_short(g)}, expected {_short(model[sl])}")
        if m:
            sel = [rr.randrange(-m, m) for _ in range(3)]
            g = outcome(lambda: obj[sel])
            if g != ("ok", [model[i] for i in sel]):
                fail("file-read", f"{label}: f[{sel}] -> {_short(g)}")
        res.evaluations += 3
        if m:
            # the caller changes a record it got from the file: the file keeps returning load(line)
            i = rr.randrange(m)
            g = outcome(lambda: obj[i])
            if g[0] == "ok" and dataclasses.is_dataclass(g[1]):
                fld = dataclasses.fields(g[1])[0].name
                try:
                    setattr(g[1], fld, "changed by the caller")
                except Exception:
                    pass
                else:
                    g2, g3 = outcome(lambda: obj[i]), outcome(lambda: list(obj))
                    if g2 != ("ok", model[i]) or g3 != ("ok", model):
                        fail("file-read-aliasing", f"{label}: after the caller changed the record it got from f[{i}], f[{i}] -> "
                             f"{_short(g2)} and iteration -> {_short(g3)}, expected {_short(model[i])}")
                    res.count("records_changed_by_the_caller")
        if m >= 2 and hasattr(obj, "close"):
            # a second session on the same object: the first read after reopening is the record after the last one read
            i = rr.randrange(m - 1)
            g1 = outcome(lambda: obj[i])
            obj.close()
            obj.open()
            g2 = outcome(lambda: obj[i + 1])
            if (g1, g2) != (("ok", model[i]), ("ok", model[i + 1])):
                fail("file-read", f"{label}: f[{i}], close(), open(), f[{i + 1}] -> {_short((g1, g2))}, expected "
                     f"{_short((model[i], model[i + 1]))}")
            res.evaluations += 1

    variants = ["RecordFile", "MemoryMappedRecordFile", "MutableRecordFile", "MutableMemoryMappedRecordFile"]
    if case.get("big"):
        for vi, v in enumerate(variants):
            with getattr(wf, v)(path, R) as obj:
                if len(obj) != n:
                    fail("file-len", f"{v}: len -> {len(obj)}, {n} records were written ({os.path.getsize(path)} bytes)")
                for i in (0, 1, n // 2, 29999, n - 2, n - 1, -1):
                    g = outcome(lambda: obj[i])
                    if g != ("ok", recs[i]):
                        fail("file-read", f"{v}: f[{i}] of {n} records -> {_short(g)}, expected {_short(recs[i])}")
                if vi == 0:
                    g = outcome(lambda: list(obj))
                    if g != ("ok", recs):
                        fail("file-read", f"{v}: iteration over {n} records differs from what was written")
            res.evaluations += 8
        res.count("record_files_of_more_than_a_mebibyte")
        res.seen(("bigfile", n))
        return
    for v in variants:
        if n == 0 and "MemoryMapped" in v:
            continue
        with getattr(wf, v)(path, R) as obj:
            read_checks(obj, recs, v)
        res.count("record_files_read")

    for v in ("MutableRecordFile", "MutableMemoryMappedRecordFile"):
        if n == 0 and "MemoryMapped" in v:
            continue
        model = list(recs)
        with getattr(wf, v)(path, R) as obj:
            for op, a, spec in case["ops"]:
                x = mk(spec)
                m = len(model)
                if op == "set":
                    if not m:
                        continue
                    i = a % (2 * m) - m
                    g, w = outcome(lambda: obj.__setitem__(i, x)), outcome(lambda: model.__setitem__(i, x))
                elif op == "insert":
                    i = a % (2 * m + 3) - (m + 1)
                    g, w = outcome(lambda: obj.insert(i, x)), outcome(lambda: model.insert(i, x))
                elif op == "append":
                    g, w = outcome(lambda: obj.append(x)), outcome(lambda: model.append(x))
                elif op == "extend":
                    g, w = outcome(lambda: obj.extend([x, x])), outcome(lambda: model.extend([x, x]))
                elif op == "del":
                    i = a % (2 * m + 2) - (m + 1)
                    g, w = outcome(lambda: obj.__delitem__(i)), outcome(lambda: model.__delitem__(i))
                else:
                    g, w = outcome(lambda: obj.pop()), outcome(lambda: model.pop())
                if g != w:
                    fail("file-edit", f"{v}: {op} -> {_short(g)}, a list gives {_short(w)}")
                res.count("record_file_edits")
                g = outcome(lambda: list(obj))
                if g != ("ok", model):
                    fail("file-edit", f"{v}: after {op} content -> {_short(g)}, expected {_short(model)}")
                res.evaluations += 1
            out = os.path.join(d, "records.saved")
            g = outcome(lambda: obj.save(out))
            if g != ("ok", None):
                fail("file-save", f"{v}: save -> {g}")
        with open(out, "rb") as f:
            data = f.read()
        nl = data.count(b"\n")
        if nl != len(model):
            fail("file-save", f"{v}: saved file has {nl} lines for {len(model)} records: {_short(data)}")
        for v2 in ("RecordFile", "MemoryMappedRecordFile", "MutableRecordFile", "MutableMemoryMappedRecordFile"):
            if not model and "MemoryMapped" in v2:
                continue
            with getattr(wf, v2)(out, R) as o2:
                read_checks(o2, model, f"{v} saved, reopened as {v2}")
            res.count("record_files_reopened")
    if n >= 2 and len({len(x) for x in lines}) > 1 and case.get("final_nl", True):
        # the source is replaced by a file of the same size and the same timestamps whose lines lie elsewhere (the records
        # in another order, as written by a tool that preserves times): nothing remembered about the old file may be used
        st = os.stat(path)
        rot = lines[1:] + lines[:1]
        with open(path, "w", encoding="utf-8", newline="") as f:
            for l in rot:
                f.write(l + "\n")
        os.utime(path, ns=(st.st_atime_ns, st.st_mtime_ns))
        if os.stat(path).st_size != st.st_size:
            raise AssertionError("harness: rotated file differs in size")
        for v in variants:
            with getattr(wf, v)(path, R) as obj:
                read_checks(obj, recs[1:] + recs[:1], f"{v} on a same-size same-mtime replacement of the file read before")
        res.count("same_size_same_mtime_replacements")
    res.seen(("file", case["cls"], repr(case["records"])[:2000], repr([o[0] for o in case["ops"]])))


def _short(x):
    r = repr(x)
    return r if len(r) < 300 else r[:200] + f"...({len(r)} chars)"


def plan(tier, seed):
    return seq.std_plan(__import__(MOD, fromlist=["x"]), tier, seed)


def run_shard(spec):
    instr.install(["windpyutils.files"])
    try:
        return seq.std_run_shard(__import__(MOD, fromlist=["x"]), spec)
    finally:
        if _SCRATCH:
            shutil.rmtree(_SCRATCH, ignore_errors=True)


def replay(doc):
    instr.install(["windpyutils.files"])
    try:
        return seq.std_replay(__import__(MOD, fromlist=["x"]), doc)
    finally:
        if _SCRATCH:
            shutil.rmtree(_SCRATCH, ignore_errors=True)


RULE += ' Also (wave 9): every round-trip record is changed by the caller (nested list / dict in place, a string field re-assigned) and saved again.'
