"""
C09 - SortedSet / SortedMap stay sorted, duplicate-free and equivalent to set / dict.

Monitor shape: reference model (builtin set / dict) after construction and after every operation
of seeded histories over mixed int/float keys, plus foreign-typed probes that must leave the
structure unchanged.
"""
import sys

from vf import common, instr, seq
from vf.common import Violation
from vf.seq import outcome

PROP = "C09"
LEVEL = "exploration"
RULE = ("seeded cases: an initialiser (None, empty list/tuple/generator/dict, unsorted, with repeats incl. 1 vs 1.0, "
        "mapping or iterable of pairs) followed by 0-80 operations (set: add/discard/remove/pop/clear/in/len/iter; "
        "map: store/delete/pop/popitem/setdefault/update/get/in/items) over a pool of 29 ints and floats (+-inf, "
        "-0.0, 2**53 neighbours, ints beyond the float range and beyond the 4300-digit str() limit), foreign probes ('a', None, 1j, tuple) through `in`, m[k], get and the removal operations that report absence with KeyError / a default (remove, del, pop), and NaN probes (in, lookup, get, and the removal operations of an absent value). Oracle after "
        "construction and after every operation: strictly ascending iteration, content/len/membership/lookup equal "
        "to set/dict. distinct_nontrivial = distinct (kind, content) states with >=2 keys.")
ASSUMPTIONS = [
    "keys are compared with == (1 and 1.0 are one key; which representative is kept is not judged)",
    "NaN keys are outside the property (not orderable); foreign values are only *probed* (in, m[k], get, remove, del, "
    "pop - the operations whose contract is KeyError / default for an absent value), never added; discard(foreign) is "
    "not judged (the unchanged code lets the TypeError of the comparison through, which corrupts nothing)",
    "SortedSet.pop() may remove any element (set.pop contract); SortedMap.popitem() any pair",
]
BASE_CASES = {"quick": 8000, "thorough": 400000}
# indices above BASE_CASES are the "quiet" histories (see gen_quiet); the cases below them are what they always were
NCASES = {"quick": 9600, "thorough": 480000}
NSHARDS = 16
SHARD_TIMEOUT = {"quick": 300, "thorough": 3600}
MOD = "vf.checks.c09"

POOL = [float("-inf"), -3, -1.5, -1, -1.0, -0.0, 0, 0.0, 1, 1.0, 2, 2.5, 3, 3.0, 7, 2 ** 53, float(2 ** 53), 2 ** 53 + 1,
        2 ** 53 + 2, 10 ** 30, 1e30, float("inf"), 2 ** 1024, -(2 ** 1024) - 1, 10 ** 400, 10 ** 5000,
        0.3, 0.1 + 0.2, 1.0000000000000002]      # neighbouring floats are different keys
BIG_INTS = (10 ** 30, 2 ** 53 + 1, 2 ** 53 + 2, 2 ** 1024, -(2 ** 1024) - 1, 10 ** 400, 10 ** 5000)
FOREIGN = ["a", None, 1j, (1, 2), "1"]

SET_OPS = ["add", "add", "discard", "remove", "pop", "clear", "in", "len", "probe", "clone"]
MAP_OPS = ["store", "store", "delete", "pop", "popitem", "setdefault", "update", "get", "in", "items", "lookup",
           "probe", "clear", "bad_store", "clone"]


QUIET_SET_OPS = ["in", "add", "remove", "discard", "add", "in", "len"]
QUIET_MAP_OPS = ["in", "lookup", "get", "store", "delete", "pop", "setdefault", "store"]


def gen_quiet(rng, tier, index):
    """A history over a handful of keys that is observed *without searching*: after each step only iteration and len() are
    compared (neither looks a key up), the membership / lookup probes of every key come once, at the end. The per-step
    probes of the ordinary cases are themselves searches, always ending with the same key: state that an operation leaves
    behind for the next search (a remembered position, a cached answer) is overwritten by them before the next operation
    of the history runs. Here the searches are those of the history only."""
    kind = "set" if index % 2 == 0 else "map"
    sub = rng.sample(range(len(POOL)), rng.choice([3, 4, 5, 6]))
    init = [k for k in sub if rng.random() < 0.6] or [sub[0]]
    if rng.random() < 0.3:
        init += [rng.choice(init)]
    rng.shuffle(init)
    names = QUIET_SET_OPS if kind == "set" else QUIET_MAP_OPS
    ops = [[rng.choice(names), rng.choice(sub), rng.randrange(1000), rng.randrange(1 << 16)]
           for _ in range(rng.randint(3, 40 if tier == "quick" else 80))]
    return {"kind": kind, "form": rng.choice(["list", "gen"] if kind == "set" else ["pairs", "dict", "gen"]), "init": init,
            "ops": ops, "quiet": True}


def gen_case(rng, tier, index):
    if index >= BASE_CASES[tier]:
        return gen_quiet(rng, tier, index)
    if index % 400 in (7, 8):
        return {"big": True, "kind": "set" if index % 2 else "map", "n": rng.choice([1100, 2100, 4200, 1025]), "seed": rng.randrange(1 << 30),
                "ops": [], "form": "big", "init": []}
    kind = "set" if index % 2 == 0 else "map"
    form = rng.choice(["none", "empty_list", "empty_tuple", "empty_gen", "empty_dict", "list", "list", "list", "gen",
                       "dict", "pairs", "pairs", "range_up", "range_down", "builtin_set", "dict_view"])
    if kind == "map" and form in ("range_up", "range_down", "builtin_set"):
        form = "pairs"
    if kind == "set" and form in ("dict", "pairs", "empty_dict"):
        form = "list"
    if kind == "set" and form == "dict_view" and rng.random() < 0.5:
        form = "list"
    n0 = rng.choice([1, 2, 3, 5, 8, 12])
    repeats = rng.random() < 0.5
    init = [rng.randrange(len(POOL)) for _ in range(n0)]
    if repeats and init:
        init += [rng.choice(init) for _ in range(rng.randint(1, 3))]
        rng.shuffle(init)
    nops = rng.randint(0, 40 if tier == "quick" else 80)
    names = SET_OPS if kind == "set" else MAP_OPS
    ops = []
    for _ in range(nops):
        o = rng.choice(names)
        if o == "clear" and rng.random() < 0.8:
            o = names[0]
        ops.append([o, rng.randrange(len(POOL)), rng.randrange(1000), rng.randrange(1 << 16)])
    return {"kind": kind, "form": form, "init": init, "ops": ops}


def shrinkable(case):
    def rebuild(ops):
        c = dict(case)
        c["ops"] = ops
        return c
    return list(case["ops"]), rebuild


def _short(x):
    r = repr(x)
    return r if len(r) < 60 else f"<int of {len(r)} digits>"


def describe(case):
    return {"kind": case["kind"], "form": case["form"], "init": [_short(POOL[i]) for i in case["init"]],
            "ops": [f"{o[0]}({_short(POOL[o[1]])})" for o in case["ops"]][:30]}


def _g(desc, fn):
    # the library runs under the interpreter's default limit for int -> str conversion (4300 digits); the harness itself
    # formats its messages without one (the pool holds an int of 5001 digits)
    sys.set_int_max_str_digits(4300)
    try:
        with instr.budget(200000):
            return outcome(fn)
    except instr.StepBudgetExceeded:
        raise Violation("operation-does-not-end", f"{desc} exceeded its statement budget", {})
    finally:
        sys.set_int_max_str_digits(0)


def build(case):
    from windpyutils.structures.sorted import SortedSet, SortedMap
    kind, form = case["kind"], case["form"]
    keys = [POOL[i] for i in case["init"]]
    if kind == "set":
        model = set()
        if form == "none":
            arg, desc = None, "SortedSet(None)"
        elif form.startswith("empty"):
            arg = {"empty_list": [], "empty_tuple": (), "empty_gen": iter(())}[form]
            desc = f"SortedSet({form})"
        elif form in ("range_up", "range_down"):
            # a range object (ascending or with a negative step): an iterable of ints like any other
            a, step = case["init"][0] % 7 - 3, 1 + len(case["init"]) % 3
            arg = range(a, a + 4 * step, step) if form == "range_up" else range(a + 4 * step, a, -step)
            model = set(arg)
            desc = f"SortedSet({arg!r})"
        elif form in ("builtin_set", "dict_view"):
            arg = set(keys) if form == "builtin_set" else dict.fromkeys(keys).keys()
            model = set(keys)
            desc = f"SortedSet({form} of {keys!r})"
        else:
            arg = list(keys) if form == "list" else (k for k in keys)
            model = set(keys)
            desc = f"SortedSet({keys!r})"
        got = _g(desc, lambda: SortedSet(arg))
    else:
        model = {}
        if form == "none":
            arg, desc = None, "SortedMap(None)"
        elif form.startswith("empty"):
            arg = {"empty_list": [], "empty_tuple": (), "empty_gen": iter(()), "empty_dict": {}}[form]
            desc = f"SortedMap({form})"
        else:
            pairs = [(k, f"v{j}") for j, k in enumerate(keys)]
            model = dict(pairs)
            if form == "dict":
                arg = dict(pairs)
            elif form == "dict_view":
                arg = dict(pairs).items()
            elif form == "gen":
                arg = (p for p in pairs)
            else:
                arg = list(pairs)
            desc = f"SortedMap({'dict' if form == 'dict' else 'pairs'} {pairs!r})"
        got = _g(desc, lambda: SortedMap(arg))
    if got[0] != "ok":
        mech = "empty-initialiser" if (form.startswith("empty")) else "construction-raised"
        raise Violation(mech, f"{desc} raised {got[1]}", {})
    if case["init"] and case["init"][0] % 3 == 0:
        # the initial values are themselves a SortedSet / SortedMap (a copy is made that way): afterwards the two
        # objects must be independent - the source is modified and must not show through in the copy
        src = got[1]
        cp = _g("copy construction", lambda: type(src)(src))
        if cp[0] != "ok":
            raise Violation("construction-raised", f"{type(src).__name__}(other {type(src).__name__}) raised {cp[1]}", {})
        if kind == "set":
            src.add(12345.5)
            src.discard(keys[0])
        else:
            src[12345.5] = "poison"
            src[keys[0]] = "poison"
        return cp[1], model, desc + " copied through its own constructor, source modified afterwards"
    return got[1], model, desc


def check_state(kind, s, model, desc, probes=True):
    got = _g("iteration", lambda: list(s))
    if got[0] != "ok":
        raise Violation("iteration-raised", f"after {desc}: iteration raised {got[1]}", {})
    keys = got[1]
    want = sorted(model)
    if any(not (a < b) for a, b in zip(keys, keys[1:])):
        mech = "duplicate-initial-keys" if (desc.startswith("Sorted") and len(keys) > len(want)) else "not-strictly-ascending"
        raise Violation(mech, f"after {desc}: iteration {keys!r} is not strictly ascending", {})
    if len(keys) != len(want) or any(a != b for a, b in zip(keys, want)):
        mech = "duplicate-initial-keys" if (desc.startswith("Sorted") and len(keys) > len(want)) else "content-mismatch"
        raise Violation(mech, f"after {desc}: content {keys!r}, reference {want!r}", {})
    if len(s) != len(want):
        raise Violation("len-mismatch", f"after {desc}: len {len(s)}, reference {len(want)}", {})
    if not probes:
        return
    for k in POOL:
        g = _g("membership", lambda: k in s)
        if g != ("ok", k in model):
            raise Violation("membership", f"after {desc}: {_short(k)} in s -> {g}, reference {k in model}", {})
    if kind == "map":
        for k in model:
            g = _g("lookup", lambda: s[k])
            if g != ("ok", model[k]):
                mech = "duplicate-initial-keys" if desc.startswith("Sorted") else "lookup-value"
                raise Violation(mech, f"after {desc}: m[{k!r}] -> {g}, reference {model[k]!r}", {})
        g = _g("items", lambda: list(s.items()))
        if g[0] != "ok" or [p[1] for p in g[1]] != [model[k] for k in want]:
            raise Violation("content-mismatch", f"after {desc}: items() -> {g}, reference {[(k, model[k]) for k in want]!r}", {})


def run_big(case, res):
    """Thousands of keys (any internal window / block size is crossed): every key looked up, re-stored, some deleted."""
    from windpyutils.structures.sorted import SortedSet, SortedMap
    import random
    rng = random.Random(case["seed"])
    n = case["n"]
    keys = rng.sample(range(-3 * n, 3 * n), n)
    if case["kind"] == "map":
        m, d = SortedMap((k, f"v{k}") for k in keys[: n // 2]), {k: f"v{k}" for k in keys[: n // 2]}
        for k in keys[n // 2:]:
            m[k] = f"v{k}"
            d[k] = f"v{k}"
        for phase in range(2):
            ks = sorted(d)
            if list(m) != ks or len(m) != len(ks):
                raise Violation("content-mismatch", f"SortedMap with {len(ks)} keys (phase {phase}): iteration differs from sorted(dict)", {})
            for j, k in enumerate(ks):
                g = _g("lookup", lambda: m[k])
                if g != ("ok", d[k]):
                    raise Violation("lookup-value", f"SortedMap with {len(ks)} keys: m[{k}] (position {j} of {len(ks)}) -> {g}", {})
                if j % 2 == phase:
                    m[k] = d[k] = f"w{k}"           # a store of a present key
            if len(m) != len(d) or list(m) != sorted(d):
                raise Violation("content-mismatch", f"SortedMap with {len(d)} keys: re-storing present keys changed the key list "
                                f"(len {len(m)})", {})
            for k in ks[::7]:
                del m[k]
                del d[k]
            for k in (ks[0] - 1, ks[-1] + 1, ks[len(ks) // 2] + 0.5):
                if (k in m) or m.get(k, "dflt") != "dflt":
                    raise Violation("membership", f"SortedMap with {len(d)} keys: absent key {k} reported present", {})
    else:
        s, d = SortedSet(keys[: n // 2]), set(keys[: n // 2])
        for k in keys[n // 2:]:
            s.add(k)
            d.add(k)
        for phase in range(2):
            ks = sorted(d)
            if list(s) != ks or len(s) != len(ks):
                raise Violation("content-mismatch", f"SortedSet with {len(ks)} values: iteration differs from sorted(set)", {})
            for j, k in enumerate(ks):
                if not (k in s):
                    raise Violation("membership", f"SortedSet with {len(ks)} values: {k} (position {j}) in s -> False", {})
                s.add(k)
            if len(s) != len(ks):
                raise Violation("content-mismatch", f"SortedSet with {len(ks)} values: adding present values changed len to {len(s)}", {})
            for k in ks[::5]:
                s.discard(k)
                d.discard(k)
    res.evaluations += 4 * n
    res.count("structures_with_thousands_of_keys")
    res.seen(("big", case["kind"], n))


def fork_check(obj, expect_list, probe, want_probe, what):
    """The history goes on in a forked child for a moment: the child sees the object as the parent left it (same listing,
    same answer to one lookup). Returns None or a description of what the child saw."""
    import os
    r, w = os.pipe()
    pid = os.fork()
    if pid == 0:
        msg = b""
        try:
            os.close(r)
            got = (outcome(lambda: list(obj)), outcome(probe))
            if got != (("ok", expect_list), want_probe):
                msg = repr(got).encode()[:600]
        except BaseException as e:
            msg = ("child raised " + repr(e)).encode()[:600]
        finally:
            try:
                os.write(w, msg)
            finally:
                os._exit(0)
    os.close(w)
    data = b""
    while True:
        chunk = os.read(r, 4096)
        if not chunk:
            break
        data += chunk
    os.close(r)
    os.waitpid(pid, 0)
    if data:
        return f"{what}: a forked child sees (listing, lookup) -> {data.decode(errors='replace')}; the parent has {expect_list!r} / {want_probe}"
    return None


def run_case(case, res):
    sys.set_int_max_str_digits(0)
    if case.get("big"):
        return run_big(case, res)
    kind = case["kind"]
    s, model, desc = build(case)
    res.evaluations += 1
    res.count("constructions_" + case["form"])
    check_state(kind, s, model, desc)
    # a second sorted structure of the same process holds strings; asking it for a number is a foreign-typed probe (absent)
    from windpyutils.structures.sorted import SortedSet as _SS
    words = _SS(["alpha", "beta", "gamma"])
    quiet = bool(case.get("quiet"))
    for step, (op, ki, v, aux) in enumerate(case["ops"]):
        k = common.fresh(POOL[ki])     # an equal number, not the identical object
        if step % 11 == 4:
            gw = _g("number in a set of strings", lambda: (k in words, "beta" in words, list(words)))
            if gw != ("ok", (False, True, ["alpha", "beta", "gamma"])):
                raise Violation("foreign-probe", f"a SortedSet of three strings asked for {k!r} -> {gw}", {})
        desc = f"{op}({k!r})"
        if op == "add":
            g = _g(desc, lambda: s.add(k))
            if g != ("ok", None):
                raise Violation("operation-raised", f"{desc} -> {g}", {})
            model.add(k)
        elif op == "discard":
            g = _g(desc, lambda: s.discard(k))
            if g != ("ok", None):
                raise Violation("operation-raised", f"{desc} -> {g}", {})
            model.discard(k)
        elif op == "remove":
            g = _g(desc, lambda: s.remove(k))
            want = ("ok", None) if k in model else ("exc", "KeyError")
            if g != want:
                raise Violation("exception-mismatch", f"{desc} -> {g}, expected {want}", {})
            model.discard(k)
        elif op == "pop" and kind == "set":
            g = _g("pop()", lambda: s.pop())
            if not model:
                if g != ("exc", "KeyError"):
                    raise Violation("exception-mismatch", f"pop() on empty set -> {g}", {})
            else:
                if g[0] != "ok" or g[1] not in model:
                    raise Violation("content-mismatch", f"pop() -> {g}, not an element of {sorted(model)!r}", {})
                model.discard(g[1])
        elif op == "clone" and aux % 5 == 4:
            first = next(iter(sorted(model)), 0)
            bad = fork_check(s, sorted(model), (lambda: first in s), ("ok", first in model), type(s).__name__)
            if bad:
                raise Violation("fork-view", bad, {})
            res.count("histories_looked_at_from_a_forked_child")
        elif op == "clone":
            # the caller goes on with a copy (copy.deepcopy / pickle round trip / copy.copy): same content, independent
            import copy
            import pickle
            how = ["deepcopy", "pickle", "copy"][aux % 3]
            fn = {"deepcopy": copy.deepcopy, "pickle": lambda x: pickle.loads(pickle.dumps(x)), "copy": copy.copy}[how]
            g = _g(f"{how} of the structure", lambda: fn(s))
            if g[0] != "ok" or type(g[1]) is not type(s):
                raise Violation("operation-raised", f"{how} of {type(s).__name__} -> {g}", {})
            if how != "copy":
                s = g[1]
                desc = f"continuing with a {how}"
            else:
                check_state(kind, g[1], model, "a copy.copy of the structure")
            res.count("clones_made")
        elif op == "clear":
            g = _g("clear()", lambda: s.clear())
            if g != ("ok", None):
                raise Violation("operation-raised", f"clear() -> {g}", {})
            model.clear()
        elif op in ("in", "len"):
            pass
        elif op == "probe" and aux % 6 == 5:
            # NaN: a float that cannot be ordered against the content. It is never stored; probing it, and the
            # removal operations of an absent value, must behave like set / dict (absent, KeyError, no change)
            nan = float("nan")
            desc = "probe nan"
            checks = [("nan in s", lambda: nan in s, ("ok", False))]
            if kind == "set":
                checks += [("discard(nan)", lambda: s.discard(nan), ("ok", None)),
                           ("remove(nan)", lambda: s.remove(nan), ("exc", "KeyError"))]
            else:
                checks += [("m[nan]", lambda: s[nan], ("exc", "KeyError")), ("get(nan)", lambda: s.get(nan, "dflt"), ("ok", "dflt")),
                           ("pop(nan, d)", lambda: s.pop(nan, "dflt"), ("ok", "dflt")),
                           ("del m[nan]", lambda: s.__delitem__(nan), ("exc", "KeyError"))]
            for dsc, fn, want in checks:
                g = _g(dsc, fn)
                if g != want:
                    raise Violation("foreign-probe", f"{dsc} -> {g}, expected {want} (content {sorted(model)!r})", {})
            res.count("nan_probes")
        elif op == "probe" and aux % 6 == 4:
            # an orderable number of another type (Fraction, Decimal) that is equal to a key / to no key: found / absent exactly
            # as in a set / dict (equal numbers hash alike)
            import math
            from decimal import Decimal
            from fractions import Fraction
            if isinstance(k, float) and not math.isfinite(k):
                continue
            conv = Fraction if aux % 12 < 6 else Decimal
            for base in (k, k + 0.5 if abs(k) < 2 ** 40 else k + 1):
                f = conv(base)
                present = f in model
                desc = f"probe {f!r} (a {conv.__name__} equal to {base!r})"
                g = _g(desc, lambda: f in s)
                if g != ("ok", present):
                    raise Violation("foreign-probe", f"{f!r} in s -> {g}; set / dict answer {present} (content {sorted(model)[:12]!r})", {})
                if kind == "map":
                    g = _g(desc, lambda: s[f])
                    want = ("ok", model[f]) if present else ("exc", "KeyError")
                    if g != want:
                        raise Violation("foreign-probe", f"m[{f!r}] -> {g}, expected {want}", {})
                    g = _g(desc, lambda: s.get(f, "dflt"))
                    if g != ("ok", model.get(f, "dflt")):
                        raise Violation("foreign-probe", f"m.get({f!r}) -> {g}, expected {model.get(f, 'dflt')!r}", {})
            res.count("numeric_probes_of_another_type")
        elif op == "probe":
            f = FOREIGN[aux % len(FOREIGN)]
            desc = f"probe {f!r}"
            g = _g(desc, lambda: f in s)
            if g != ("ok", False):
                raise Violation("foreign-probe", f"{f!r} in s -> {g}, expected False (content {sorted(model)!r})", {})
            if kind == "map":
                g = _g(desc, lambda: s[f])
                if g != ("exc", "KeyError"):
                    raise Violation("foreign-probe", f"m[{f!r}] -> {g}, expected KeyError", {})
                g = _g(desc, lambda: s.get(f, "dflt"))
                if g != ("ok", "dflt"):
                    raise Violation("foreign-probe", f"m.get({f!r}) -> {g}, expected default", {})
                more = [(f"del m[{f!r}]", lambda: s.__delitem__(f), ("exc", "KeyError")),
                        (f"m.pop({f!r})", lambda: s.pop(f), ("exc", "KeyError")),
                        (f"m.pop({f!r}, default)", lambda: s.pop(f, "dflt"), ("ok", "dflt"))]
            else:
                more = [(f"remove({f!r})", lambda: s.remove(f), ("exc", "KeyError"))]
            for dsc, fn, want in more:
                g = _g(dsc, fn)
                if g != want:
                    raise Violation("foreign-probe", f"{dsc} -> {g}, expected {want} (content {sorted(model)!r})", {})
            res.count("foreign_probes")
        elif op == "bad_store":
            # stores under keys the map refuses (NaN, foreign types) through every storing method: whatever is raised, the
            # map must stay what it was (the state comparison below would see a smuggled-in key)
            badk = [float("nan"), "a", None, (1, 2)][aux % 4]
            how = aux % 3
            desc = f"store attempt with invalid key {badk!r} via {['m[k]=v', 'setdefault', 'update'][how]}"
            if how == 0:
                g = _g(desc, lambda: s.__setitem__(badk, "x"))
            elif how == 1:
                g = _g(desc, lambda: s.setdefault(badk, "x"))
            else:
                g = _g(desc, lambda: s.update([(badk, "x")]))
            if g[0] == "ok":
                raise Violation("invalid-key-accepted", f"{desc} returned normally ({g[1]!r}); content {list(s)!r}", {})
            res.count("invalid_store_attempts")
        elif op == "store" and aux % 5 == 2:
            # the value is overwritten by an equal but different object, which the caller goes on changing: like a dict, the
            # map holds the object stored last
            first, second = [step], [step]
            desc = f"m[{k!r}]=[{step}] twice (two equal lists), then the second list is appended to"
            for val in (first, second):
                g = _g(desc, lambda: s.__setitem__(k, val))
                if g != ("ok", None):
                    raise Violation("operation-raised", f"m[{k!r}]=.. -> {g}", {})
                model[k] = val
            second.append("later")
            g = _g(desc, lambda: s[k])
            if g != ("ok", model[k]):
                raise Violation("lookup-value", f"{desc}: m[{k!r}] -> {g}, a dict answers {model[k]!r}", {})
            res.count("overwrites_with_an_equal_but_different_object")
        elif op == "store":
            val = f"s{step}"
            g = _g(desc, lambda: s.__setitem__(k, val))
            if g != ("ok", None):
                raise Violation("operation-raised", f"m[{k!r}]=.. -> {g}", {})
            model[k] = val
        elif op == "delete":
            g = _g(desc, lambda: s.__delitem__(k))
            want = ("ok", None) if k in model else ("exc", "KeyError")
            if g != want:
                raise Violation("exception-mismatch", f"del m[{k!r}] -> {g}, expected {want}", {})
            model.pop(k, None)
        elif op == "pop":
            dflt = None if aux % 4 == 3 else "dflt"         # None is a default like any other
            g = _g(desc, lambda: s.pop(k, dflt) if aux % 2 else s.pop(k))
            if k in model:
                want = ("ok", model[k])
            else:
                want = ("ok", dflt) if aux % 2 else ("exc", "KeyError")
            if g != want:
                raise Violation("lookup-value", f"m.pop({k!r}) -> {g}, expected {want}", {})
            model.pop(k, None)
        elif op == "popitem":
            g = _g("popitem()", lambda: s.popitem())
            if not model:
                if g != ("exc", "KeyError"):
                    raise Violation("exception-mismatch", f"popitem() on empty map -> {g}", {})
            else:
                if g[0] != "ok" or g[1][0] not in model or model[g[1][0]] != g[1][1]:
                    raise Violation("content-mismatch", f"popitem() -> {g}, not a pair of the map", {})
                del model[g[1][0]]
        elif op == "setdefault":
            val = f"d{step}"
            g = _g(desc, lambda: s.setdefault(k, val))
            want = ("ok", model[k]) if k in model else ("ok", val)
            if g != want:
                raise Violation("lookup-value", f"m.setdefault({k!r}) -> {g}, expected {want}", {})
            model.setdefault(k, val)
        elif op == "update" and aux % 7 == 3 and len(model) >= 2:
            # the source of update() is produced lazily and touches the map while it is consumed (keys moved with
            # m.update((new, m.pop(old)) for old in ...)): like dict.update, the stores and the pops interleave
            olds = sorted(model)[:3]
            news = [POOL[(ki + j * 3 + aux) % len(POOL)] for j in range(len(olds))]
            desc = f"update((new, m.pop(old)) for old, new in {list(zip(olds, news))!r})"

            def moving(target):
                for o_, n_ in zip(olds, news):
                    if o_ in target:
                        yield n_, target.pop(o_)
            g = _g(desc, lambda: s.update(moving(s)))
            if g != ("ok", None):
                raise Violation("operation-raised", f"{desc} -> {g}", {})
            model.update(moving(model))
            res.count("updates_from_a_source_that_changes_the_map")
        elif op == "update":
            nk = 1 + aux % 4 if aux % 6 else 16 + aux % 7          # sometimes a big batch (more keys than the pool: repeats)
            ks = [POOL[(ki + j * 5 + aux) % len(POOL)] for j in range(nk)]
            pairs = [(kk, f"u{step}_{j}") for j, kk in enumerate(ks)]
            desc = f"update({pairs!r})"
            g = _g(desc, lambda: s.update(dict(pairs) if aux % 2 else pairs))
            if g != ("ok", None):
                raise Violation("operation-raised", f"{desc} -> {g}", {})
            model.update(dict(pairs) if aux % 2 else pairs)
        elif op == "get":
            dflt = None if aux % 4 == 3 else "dflt"
            g = _g(desc, lambda: s.get(k, dflt) if aux % 8 != 7 else s.get(k))
            if g != ("ok", model.get(k, dflt)):
                raise Violation("lookup-value", f"m.get({k!r}, {dflt!r}) -> {g}, expected {model.get(k, dflt)!r}", {})
        elif op == "lookup":
            g = _g(desc, lambda: s[k])
            want = ("ok", model[k]) if k in model else ("exc", "KeyError")
            if g != want:
                raise Violation("lookup-value", f"m[{k!r}] -> {g}, expected {want}", {})
        elif op == "items":
            pass
        res.evaluations += 1
        res.count(f"op_{kind}_{op}")
        check_state(kind, s, model, desc, probes=not quiet)
        if quiet:
            res.count("quiet_steps_observed_without_search")
        if len(model) >= 2:
            res.seen((kind, tuple(repr(float(x)) if x not in BIG_INTS else _short(x)
                                  for x in sorted(model))))
    if quiet:
        check_state(kind, s, model, f"the whole quiet history of {len(case['ops'])} operations")
        res.count("quiet_histories")


def plan(tier, seed):
    return seq.std_plan(__import__(MOD, fromlist=["x"]), tier, seed)


def run_shard(spec):
    instr.install(["windpyutils.structures.sorted"])
    return seq.std_run_shard(__import__(MOD, fromlist=["x"]), spec)


def replay(doc):
    instr.install(["windpyutils.structures.sorted"])
    return seq.std_replay(__import__(MOD, fromlist=["x"]), doc)


RULE += ' Also (wave 9): overwrites with an equal but different object that the caller goes on changing, Fraction / Decimal probes equal / unequal to stored keys.'
RULE += (' Also (wave 11): quiet histories over 3-6 keys (case indices above BASE_CASES) observed after each step by iteration and '
         'len() only - the per-step membership probes are searches and would overwrite state the history left for the next '
         'search -, with the full probes once at the end.')
