"""
C03 - A pool stays correct across consecutive calls and across worker replacement.

Monitor shape: C01's yield-history checker per call with call-tagged unique items (a leak between
calls is a value of another call), C02's quiescence oracle (pending chunks with no live worker / no
live replace thread), exception monitor on every call; queue sizes between calls are recorded as
diagnostics only. Reach: call histories x quotas placed so that retirements fall before / exactly
at / after the end of a call x delay sweep over ReplaceWorkerThread, the worker's retire path and
the end of imap.
"""
from vf import pool_checks

PROP = "C03"
LEVEL = "exploration"
RULE = ("base cases: one pool instance, 2-6 fully consumed calls mixing imap / imap_unordered, empty inputs in between, "
        "different chunk sizes and input forms; FactoryFunctorPool with quota 1-5 and call lengths of m*quota*workers "
        "chunks and +-1 (retirements exactly at the end of a call), FunctorPool without quota, bounded result queues "
        "(incl. maxsize 1 around empty calls), join_timeout shorter than a slow end() of retiring workers, one long-lived pool (320 replacements under RLIMIT_NOFILE=160) and one pool whose factory needs 1.4 s per replacement. Each base case: dry run, one run per (executed statement, occurrence) "
        "with a 120 ms delay, random 2-3 delay combinations, forced GIL hand-offs. Oracles per run: per-call value "
        "oracle, exception per call, quiescence oracle. distinct_nontrivial = distinct (base case, "
        "thread-switch-pair set, plan size)."
        " Also: idle periods of 6.5 s between calls under fork / fork server / spawn, data items of 70 kB, list items, array-like inputs.")
ASSUMPTIONS = [
    "every call is fully consumed before the next one starts; functors return normally",
    "queue residue between calls (wids of workers that retired after the replace thread stopped, payload-free "
    "tokens) is legitimate and only recorded; the verdict comes from values, exceptions and quiescence",
    "hangs are decided by the quiescence oracle (see C02); the hard wall limit yields INCONCLUSIVE",
]
NBASES = {"quick": 16, "thorough": 160}
SHARD_TIMEOUT = {"quick": 400, "thorough": 3000}
MOD = "vf.checks.c03"
START_METHODS = True
INSTR_HOT = ("FunctorPool.imap", "FunctorPool.imap_unordered", "FunctorPool._get_results", "FunctorPool.SendWorkThread.run",
             "FactoryFunctorPool.ReplaceWorkerThread.run", "FactoryFunctorPool.ReplaceWorkerThread.stop", "CMThread.stop")
INSTR_SAMPLE = 70
INSTR_AUTO = ("FunctorPool.*", "FactoryFunctorPool.*", "CMThread.*")
INSTR_AUTO_SAMPLE = 60      # helpers a refactoring introduced into the call loop: enough sampled sites to meet the two reads of a split loop condition


def gen_base(rng, tier, index):
    if index == 11 or (tier == "thorough" and index % 40 == 11):
        # several seconds of idleness between calls (the caller does something else): the pool must still serve the next call
        pause = 6.5 if tier == "quick" else rng.choice([6.5, 12.0, 31.0])
        return {"pool": "factory" if index % 2 else "functor", "workers": 2, "quota": 2 if index % 2 else None, "wq": 1.0, "rq": None,
                "no_sweep": True, "limit_factor": 3, "start": ["forkserver", "fork", "spawn"][(index // 40) % 3],
                "calls": [{"ordered": True, "n": 6, "chunk": 1, "form": "list", "pause_after": pause},
                          {"ordered": False, "n": 7, "chunk": 2, "form": "gen", "pause_after": 0.5},
                          {"ordered": True, "n": 3, "chunk": 1, "form": "list"}]}
    if index == 9 or (tier == "thorough" and index % 40 == 9):
        # a long-lived pool: hundreds of retirements and replacements under a tight descriptor limit
        return {"pool": "factory", "workers": 2, "quota": 1, "wq": 1.0, "rq": None, "no_sweep": True, "limit_factor": 3,
                "nofile": 160, "calls": [{"ordered": ci % 2 == 0, "n": 80, "chunk": 1, "form": "list"} for ci in range(4)]}
    if index == 14 or (tier == "thorough" and index % 40 == 14):
        # an expensive worker constructor: while the replacement is being created the pool has no live worker
        return {"pool": "factory", "workers": 1, "quota": 1, "wq": 1.0, "rq": None, "no_sweep": True, "limit_factor": 3,
                "slow_create": 1.4, "calls": [{"ordered": True, "n": 3, "chunk": 1, "form": "list"},
                                              {"ordered": False, "n": 2, "chunk": 1, "form": "gen"}]}
    if index == 10 or (tier == "thorough" and index % 40 == 10):
        # chunks that take a little longer than a second (the period of any plausible liveness poll): a worker retires just
        # after such a poll has expired; delays are injected at the statements of the replace thread only
        t = 1.05 if tier == "quick" else rng.choice([1.05, 1.02, 2.05])
        return {"pool": "factory", "workers": 1 + index % 2, "quota": 1, "wq": 1.0, "rq": None, "limit_factor": 2,
                "sweep_only": ["FactoryFunctorPool.ReplaceWorkerThread.run"], "budget_s": 280,     # every run takes 3 s: the whole sweep
                "calls": [{"ordered": True, "n": 3, "chunk": 1, "form": "list", "durations": {"mode": "all", "t": t}}]}
    if index % 8 == 5:
        # many short calls, each with fewer chunks than the quota, together far more than workers*quota: retirements are
        # spread over calls and fall at call boundaries
        q = rng.choice([2, 3, 4])
        w = rng.choice([1, 2])
        calls = [{"ordered": ci % 2 == 0, "n": (q - 1) * ch, "chunk": ch, "form": rng.choice(["list", "list", "tuple", "gen"]),
                  "salt": ci} for ci, ch in enumerate(rng.choice([1, 2]) for _ in range(rng.randint(6, 9)))]
        if index % 16 == 13:
            w = 1
        return {"pool": "factory", "workers": w, "quota": q, "wq": rng.choice([None, 1, 1.0]), "rq": rng.choice([None, 1, 2]),
                # every second one with a chunk limit that is no whole number (max_chunks_per_worker=2.5): replaced all the same
                "frac_quota": [0.5, 0.25][(index // 16) % 2] if index % 16 == 13 else None, "calls": calls}
    factory = index % 4 != 3
    workers = rng.choice([1, 2, 2, 3])
    quota = rng.choice([1, 1, 2, 3, 5]) if factory and index % 8 != 6 else None
    if index % 5 == 2:
        factory, quota = True, rng.choice([1, 2])        # replacements while joins of retiring workers time out
    ncalls = rng.randint(2, 4 if tier == "quick" else 6)
    calls = []
    for ci in range(ncalls):
        chunk = rng.choice([1, 1, 2, 3])
        if rng.random() < 0.2:
            n = 0
        elif quota:
            m = rng.randint(1, 2)
            nch = m * quota * workers + rng.choice([-1, 0, 0, 0, 1])
            n = max(0, nch) * chunk - (rng.randrange(chunk) if rng.random() < 0.3 else 0)
            n = max(0, n)
        else:
            n = rng.randint(0, 14)
        call = {"ordered": rng.random() < 0.7, "n": n, "chunk": chunk, "form": rng.choice(["list", "list", "gen", "slow", "deque", "intseq", "array_like"]), "list_items": rng.random() < 0.25,
                "item_size": 70_000 if (rng.random() < 0.15 and n <= 8) else 0,
                "salt": rng.randrange(1000)}
        if call["form"] == "slow":
            call["slow"] = {"before": {}, "stop": rng.choice([0, 0.03, 0.1])}
        if rng.random() < 0.4 and n:
            nchunks = max(1, -(-n // chunk))
            call["durations"] = {"mode": rng.choice(["slow_chunk", "alternate", "hash"]), "t": rng.choice([0.01, 0.03]),
                                 "chunk": rng.choice([0, nchunks - 1]), "phase": rng.randrange(2), "nchunks": nchunks}
        if rng.random() < 0.2:
            call["pause_after"] = 0.05
        calls.append(call)
    rq = rng.choice([None, None, 1, 1, 2, 3])
    case = {"pool": "factory" if factory else "functor", "workers": workers, "quota": quota,
            "wq": rng.choice([None, 1, 2, 1.0, 1.0, 2.0]), "rq": rq, "calls": calls}
    if index % 5 == 2:
        # join_timeout shorter than the workers' end(): joins of retiring workers time out (a legal configuration)
        case["join_timeout"] = 0.1
        case["end_delay"] = rng.choice([0.3, 0.6])
    if factory and quota and index % 8 in (0, 4):
        case["worker_opts"] = {"end_raises": True}         # the workers' clean-up hook fails: they are replaced all the same
    if factory and quota and index % 8 == 2:
        case["frac_quota"] = rng.choice([0.5, 0.25])       # max_chunks_per_worker=2.5: the worker is replaced all the same
    if factory and quota and index % 8 == 1 and "worker_opts" not in case:
        case["worker_opts"] = {"quota_in_begin": quota}        # the chunk limit is set by the worker itself, in begin()
    if index % 8 == 4:
        # one generator used by two threads one after the other (the first result taken by a helper thread); the exhausted generator
        # of a call still referenced, and released, while the next call is being read
        calls[0]["first_next_in_thread"] = True
        case["release_prev_mid_call"] = True
    if index % 8 == 3:
        case["create_all_first"] = True                    # all result generators built first, consumed one after the other
    if factory and quota and index % 8 == 1:
        case["verbose"] = True      # information messages wanted (a stderr that cannot be written to is an environment fault the
        # property does not quantify over: the library's own message about a join that timed out would kill the replace thread there)
    return case


def owns(kind, mech, case, result):
    return kind in ("value", "deadlock", "driver")


def observe(case, result, res):
    ev = result.get("events", [])
    started = sum(1 for e in ev if e["ev"] == "begin_enter")
    initial = case["workers"]
    if started > initial:
        res.count("replacements_observed", started - initial)
    res.count("calls_completed", sum(1 for c in result.get("calls", []) if c.get("completed")))
    for c in result.get("calls", []):
        a = c.get("after") or {}
        if a.get("replace_qsize"):
            res.count("calls_ending_with_wids_in_replace_queue")
        if a.get("results_qsize"):
            res.count("calls_ending_with_entries_in_results_queue")


def plan(tier, seed):
    return pool_checks.plan(__import__(MOD, fromlist=["x"]), tier, seed)


def run_shard(spec):
    return pool_checks.run_shard(__import__(MOD, fromlist=["x"]), spec)


def replay(doc):
    return pool_checks.replay(__import__(MOD, fromlist=["x"]), doc)


RULE += ' Also (waves 8-9): chunks of 1.05 s with the delay sweep aimed at the replace thread, chunk limits that are no whole numbers (2.5), a chunk limit the worker sets itself in begin(), verbose=True, one generator used by two threads one after the other, the exhausted generator of the previous call released while the next call is read.'
