"""
C07 - LFUCache evicts a least frequently used key and keeps the latest stored value.

Monitor shape: reference model with per-key use-count *intervals* [lo, hi] (the statement leaves open
whether membership tests and the lookups made inside views count as uses), compared after every
operation; step budget for the "views terminate" part; best-effort structural walk.
"""
from vf import common, instr, seq
from vf.common import Violation
from vf.seq import outcome

PROP = "C07"
LEVEL = "exploration"
RULE = ("seeded random histories (30-400 operations) over capacities 1-8 and 64, key universe capacity+1..+4: "
        "store (new and present keys, also re-storing the identical object), c[k], get, del, in, len, list, keys, values, items, pop, popitem, clear, "
        "update, setdefault, ==. Model: key -> (value, use count interval). After every operation: result / "
        "exception class, len<=max_size, key set, the victim of an overflow can be a minimum (lo(victim) <= "
        "hi(every other key present before)), iteration order consistent with non-decreasing counts "
        "(lo(x) <= hi(y) for x before y), views finish within the statement budget and equal the content. One "
        "hundred-and-fiftieth of the histories drives a few hot keys to 270-1000 uses each before overflowing; one third of the histories contain no membership test / view / get, so their counts are exact (lo == hi). "
        "distinct_nontrivial = distinct (capacity, iteration order, counts) states with >=2 keys.")
ASSUMPTIONS = [
    "count 1 at insertion, +1 for every store to a present key and every successful c[k]; `in` on a present key, "
    "get(), setdefault() on a present key and every key touched by values()/items()/==/popitem may or may not "
    "count (hi+1 only)",
    "ties between equal counts may be broken either way",
]
NCASES = {"quick": 6000, "thorough": 150000}
NSHARDS = 16
SHARD_TIMEOUT = {"quick": 300, "thorough": 3600}
MOD = "vf.checks.c07"

OPS = ["set", "getitem", "get", "del", "contains", "len", "list", "keys", "values", "items", "pop", "popitem",
       "clear", "update", "setdefault", "eq_dict", "ne_dict"]


TEXT_KEYS = ['e\u0301', '\u00e9', 'A\u030a', '\u00c5', '\u212b', 'a', ' a', 'A', 'ss', '\u00df', '1', '\uff11', 'a/b', 'a/./b', 'a\n',
             'a\r\n', ' ', '\ufeffa', '\ufb01', 'fi']       # canonically / compatibility / case / blank equivalent, but different strings


def gen_case(rng, tier, index):
    if index % 150 == 10:
        return {"special": "nan_key", "ops": []}
    if index % 600 == 11:
        return {"special": "many_ties", "n": rng.choice([4100, 4500, 9000]), "ops": []}
    if index % 150 == 9:
        # a few hot keys used hundreds of times each (with different totals), then overflow stores
        cap = rng.choice([2, 3])
        ops = []
        for ki in range(cap):
            ops.append(["set", ki, 0, 1])
        totals = [rng.choice([270, 300, 520, 1000]) + 37 * ki for ki in range(cap)]
        for ki, t in enumerate(totals):
            ops += [["getitem", ki, 0, 1]] * t
        for j in range(3):
            ops.append(["set", cap + j, 0, 1])
            ops.append(["list", 0, 0, 1])
        return {"cap": cap, "nkeys": cap + 3, "ops": ops, "exact": True}
    cap = rng.choice([1, 1, 2, 2, 3, 3, 4, 5, 6, 7, 8, 64]) if index % 7 else rng.choice([1, 2, 3])
    nkeys = cap + rng.randint(1, 4)
    nops = rng.randint(30, 120 if tier == "quick" else 400)
    if cap == 64:
        nops = rng.randint(150, 400)
    w = {o: 1 for o in OPS}
    w["set"] = 9
    w["getitem"] = 6
    w["clear"] = 0.2
    w["clone"] = 0.4
    w["partial_view"] = 0.6
    w["fork_check"] = 0.15
    w["shallow_copy"] = 0.3
    exact = index % 3 == 0
    if exact:
        for o in ("values", "items", "eq_dict", "ne_dict", "popitem", "setdefault", "contains", "get", "clear"):
            w[o] = 0
    restore_heavy = index % 5 == 1
    names = sorted(w)
    ops = []
    for _ in range(nops):
        o = rng.choices(names, [w[n] for n in names])[0]
        ki = rng.randrange(nkeys)
        if restore_heavy and o == "set" and rng.random() < 0.6:
            ki = rng.randrange(min(cap, nkeys))  # re-stores of keys that tend to be present, many ties
        ops.append([o, ki, rng.randrange(1000), rng.randrange(1 << 16)])
    return {"cap": cap, "nkeys": nkeys, "ops": ops, "exact": exact, "keys": "text" if index % 8 == 6 else "big" if index % 4 == 1 else "small",
            "thread_hops": index % 5 == 2}


def shrinkable(case):
    def rebuild(ops):
        c = dict(case)
        c["ops"] = ops
        return c
    return list(case["ops"]), rebuild


def describe(case):
    if case.get("special"):
        return dict(case)
    return {"cap": case["cap"], "nkeys": case["nkeys"], "ops": [f"{o[0]}({o[1]})" for o in case["ops"]][:40]}


def view_budget(n):
    return 2000 + 200 * (n + 1) ** 2


_HOP = [False]


def _guard(desc, n, fn):
    try:
        with instr.budget(view_budget(n)):
            if _HOP[0]:
                # this operation is made by a short-lived thread of its own (strictly one after the other: a history spread over
                # the threads of a pool of handlers)
                import threading
                box = []

                def run():
                    try:
                        box.append(outcome(fn))
                    except BaseException as e:      # noqa: B036 - re-raised in the caller
                        box.append(e)
                t = threading.Thread(target=run, name="vf:hop")
                t.start()
                t.join()
                if isinstance(box[0], BaseException):
                    raise box[0]
                return box[0]
            return outcome(fn)
    except instr.StepBudgetExceeded:
        raise Violation("operation-does-not-end",
                        f"{desc} on a cache with {n} entries exceeded {view_budget(n)} repository statements", {})


class Model:
    def __init__(self, cap):
        self.cap = cap
        self.val = {}
        self.lo = {}
        self.hi = {}
        self.prev_val = {}

    def use(self, k, exact=True):
        self.hi[k] += 1
        if exact:
            self.lo[k] += 1

    def drop(self, k):
        del self.val[k], self.lo[k], self.hi[k]
        self.prev_val.pop(k, None)


def internal_walk(c, m, res):
    try:
        d = c.cache
        nodes = []
        node = c.list.head
        while node is not None and len(nodes) <= len(m.val) + 1:
            nodes.append(node)
            node = node.next_node
        items = [(n.data.key, n.data.value, n.data.meta) for n in nodes]
    except AttributeError:
        res.count("internal_walk_skipped")
        return
    res.count("internal_walks")
    if sorted((k for k, _, _ in items), key=repr) != sorted(m.val, key=repr) or set(d.keys()) != set(m.val) or len(d) != len(m.val):
        raise Violation("internal-disagreement", f"dict keys {list(d)!r} / list keys {[i[0] for i in items]!r} / "
                        f"reference keys {list(m.val)!r} disagree", {})
    for k, v, f in items:
        if not (m.lo[k] <= f <= m.hi[k]):
            raise Violation("use-count", f"internal use count of {k!r} is {f}, reference interval "
                            f"[{m.lo[k]}, {m.hi[k]}]", {})
        if d[k].data.key != k:
            raise Violation("internal-disagreement", f"dict entry {k!r} points to node of {d[k].data.key!r}", {})
    fr = [f for _, _, f in items]
    if fr != sorted(fr):
        raise Violation("internal-disagreement", f"frequency list is not sorted: {items!r}", {})


def observe(c, m, desc, res):
    n = len(m.val)
    got = _guard(f"list(cache) after {desc}", n, lambda: list(c))
    if got[0] != "ok":
        raise Violation("iteration-raised", f"list(cache) after {desc} raised {got[1]}", {})
    order = got[1]
    ln = len(c)
    if ln > m.cap or len(order) > m.cap:
        raise Violation("len-exceeds-max", f"after {desc}: {max(ln, len(order))} entries, max_size={m.cap}", {})
    if sorted(order, key=repr) != sorted(m.val, key=repr):
        raise Violation("content-mismatch", f"after {desc}: keys {order!r}, reference keys {sorted(m.val, key=repr)!r}", {})
    if ln != n:
        raise Violation("len-mismatch", f"after {desc}: len(cache)={ln}, reference has {n}", {})
    for x, y in zip(order, order[1:]):
        if m.lo[x] > m.hi[y]:
            raise Violation("iteration-order", f"after {desc}: {x!r} (uses>={m.lo[x]}) listed before {y!r} "
                            f"(uses<={m.hi[y]}); order {order!r}", {"lo": repr(m.lo), "hi": repr(m.hi)})
    internal_walk(c, m, res)
    return order



def run_special(case, res, cls, lfu):
    """Two fixed scenarios outside the random histories."""
    what = case["special"]
    if what == "nan_key":
        # a key that is not equal to itself (NaN) behaves in a dict by identity; the cache is a mapping like dict
        nan = float("nan")
        c, d = cls(3), {}
        steps = [("set", nan, "n1"), ("set", 1, "one"), ("get", nan), ("in", nan), ("set", nan, "n2"), ("get", nan), ("set", 2, "two"),
                 ("items",), ("del", nan), ("in", nan), ("get", 1)]
        for st in steps:
            if st[0] == "set":
                g, w = outcome(lambda: c.__setitem__(st[1], st[2])), outcome(lambda: d.__setitem__(st[1], st[2]))
            elif st[0] == "get":
                g, w = outcome(lambda: c[st[1]]), outcome(lambda: d[st[1]])
            elif st[0] == "in":
                g, w = outcome(lambda: st[1] in c), outcome(lambda: st[1] in d)
            elif st[0] == "del":
                g, w = outcome(lambda: c.__delitem__(st[1])), outcome(lambda: d.__delitem__(st[1]))
            else:
                g, w = outcome(lambda: sorted(map(repr, c.items()))), outcome(lambda: sorted(map(repr, d.items())))
            res.evaluations += 1
            if g != w:
                raise Violation("lookup-value", f"NaN used as a key (one object): step {st[:2]} -> {g}, a dict gives {w}", {})
        res.count("nan_key_scenarios")
        return
    # many_ties: thousands of entries with the same use count, then a use of the oldest one
    n = case["n"]
    c = cls(n)
    for i in range(n):
        c[i] = i
    if lfu:
        # whichever end of the frequency list a key with a fresh count sits at, one of these two lookups has to pass all the
        # other entries: both keys end up behind every key that was used once
        for probe in (n - 1, n // 2):
            with instr.budget(40 * n + 20000):
                try:
                    v = c[probe]
                except instr.StepBudgetExceeded:
                    raise Violation("operation-does-not-end", f"lookup in a cache of {n} entries with equal use counts exceeded its statement budget", {})
            order = list(c)
            res.evaluations += 1
            if v != probe or len(order) != n or not (set(order[-2:]) >= {probe}) or order.index(probe) < n - 2:
                raise Violation("iteration-order", f"{n} keys used once, key {probe} looked up: it is listed at position {order.index(probe)} of {n} "
                                "(iteration must be in non-decreasing use count)", {})
        for probe in (n - 1, n // 2):
            del c[probe]
            c[probe] = probe        # back to use count 1 (a new entry)
    with instr.budget(40 * n + 20000):
        try:
            v = c[0]
        except instr.StepBudgetExceeded:
            raise Violation("operation-does-not-end", f"lookup in a cache of {n} entries with equal use counts exceeded its statement budget", {})
    order = list(c)
    res.evaluations += 3
    if v != 0 or len(order) != n or set(order) != set(range(n)):
        raise Violation("content-mismatch", f"cache of {n} entries after one lookup: value {v}, {len(order)} keys listed", {})
    if lfu:
        if order[-1] != 0:
            raise Violation("iteration-order", f"{n} keys used once and key 0 used twice: key 0 is listed at position {order.index(0)} of "
                            f"{n} (iteration must be in non-decreasing use count)", {})
        c[n] = n                # evicts a key used once
        gone = set(range(n + 1)) - set(c)
        if len(gone) != 1 or 0 in gone or n in gone:
            raise Violation("wrong-victim", f"storing a new key into the full cache of {n} removed {sorted(gone)[:5]} (key 0 was used twice, "
                            "all others once)", {})
    else:
        if order[0] != 0:
            raise Violation("order-mismatch", f"{n} keys stored, key 0 looked up: most recently used first gives 0 first, got {order[:3]}", {})
        c[n] = n
        gone = set(range(n + 1)) - set(c)
        if gone != {1}:
            raise Violation("wrong-victim", f"storing a new key into the full cache of {n} removed {sorted(gone)[:5]}, least recently used is 1", {})
    res.count("many_entries_scenarios")
    res.seen(("special", what, n))


def fork_check(obj, expect_list, probe, want_probe, what):
    """The history goes on in a forked child for a moment: the child sees the object as the parent left it (same listing,
    same answer to one lookup). Returns None or a description of what the child saw."""
    import os
    r, w = os.pipe()
    pid = os.fork()
    if pid == 0:
        msg = b""
        try:
            os.close(r)
            got = (outcome(lambda: list(obj)), outcome(probe))
            if got != (("ok", expect_list), want_probe):
                msg = repr(got).encode()[:600]
        except BaseException as e:
            msg = ("child raised " + repr(e)).encode()[:600]
        finally:
            try:
                os.write(w, msg)
            finally:
                os._exit(0)
    os.close(w)
    data = b""
    while True:
        chunk = os.read(r, 4096)
        if not chunk:
            break
        data += chunk
    os.close(r)
    os.waitpid(pid, 0)
    if data:
        return f"{what}: a forked child sees (listing, lookup) -> {data.decode(errors='replace')}; the parent has {expect_list!r} / {want_probe}"
    return None


def run_case(case, res):
    from windpyutils.structures.caches import LFUCache
    if case.get("special"):
        return run_special(case, res, LFUCache, True)
    cap = case["cap"]
    keys = list(range(case["nkeys"]))
    if case.get("keys") == "big":
        # ints beyond the small-int cache: equal keys are different objects
        keys = [10 ** 6 + i for i in range(case["nkeys"])]
    elif case.get("keys") == "text":
        keys = [TEXT_KEYS[i % len(TEXT_KEYS)] + ("" if i < len(TEXT_KEYS) else str(i)) for i in range(case["nkeys"])]
    # a second, independent cache lives next to the one under test (state shared between instances would show)
    comp = LFUCache(2)
    comp["companion-a"] = "x"
    comp["companion-b"] = "y"
    c = LFUCache(cap)
    m = Model(cap)
    for step, (op, ki, v, aux) in enumerate(case["ops"]):
        _HOP[0] = bool(case.get("thread_hops")) and step % 2 == 1       # every second operation by a thread of its own
        k = common.fresh(keys[ki % len(keys)])     # an equal key, not the identical object
        n = len(m.val)
        desc = f"{op}({k!r})"
        if op == "set":
            v = (v, step)  # unique value per store: a read identifies the store it observed
            if aux % 9 == 5:
                v = [None, 0, "", False, (), 0.0][step % 6]     # None and falsy objects are values like any other
            if aux % 4 == 0 and k in m.val:
                v = m.val[k]   # the very same object is stored again (a refresh): still a store, still one more use
            desc = f"store {k!r}"
            before = dict(m.val)
            got = _guard(desc, n, lambda: c.__setitem__(k, v))
            if got[0] != "ok":
                raise Violation("operation-raised", f"{desc} raised {got[1]}", {})
            if k in m.val:
                m.prev_val[k] = m.val[k]
                m.val[k] = v
                m.use(k)
                res.count("restores")
            elif n < cap:
                m.val[k], m.lo[k], m.hi[k] = v, 1, 1
            else:
                # overflow: exactly one old key must go and it must be able to be a minimum
                now = _guard("list(cache)", n, lambda: list(c))
                if now[0] != "ok":
                    raise Violation("iteration-raised", f"list(cache) raised {now[1]}", {})
                gone = [x for x in before if x not in now[1]]
                if k not in now[1] or len(gone) != 1 or len(now[1]) != n:
                    raise Violation("wrong-victim", f"storing new key {k!r} into full cache {sorted(before, key=repr)!r} left "
                                    f"keys {now[1]!r}: exactly one old key must be evicted", {})
                victim = gone[0]
                others = [x for x in before if x != victim]
                worse = [x for x in others if m.hi[x] < m.lo[victim]]
                if worse:
                    raise Violation("wrong-victim", f"storing {k!r} evicted {victim!r} (use count >= {m.lo[victim]}) "
                                    f"although {worse[0]!r} has use count <= {m.hi[worse[0]]}",
                                    {"lo": repr(m.lo), "hi": repr(m.hi)})
                res.count("evictions")
                if all(m.lo[x] == m.hi[x] for x in before):
                    res.count("evictions_checked_exactly")
                m.drop(victim)
                m.val[k], m.lo[k], m.hi[k] = v, 1, 1
        elif op == "getitem":
            got = _guard(desc, n, lambda: c[k])
            want = ("ok", m.val[k]) if k in m.val else ("exc", "KeyError")
            if got != want:
                mech = "lookup-value"
                if k in m.val and got == ("ok", m.prev_val.get(k, object())):
                    mech = "store-present-key-keeps-old-value"
                raise Violation(mech, f"c[{k!r}] -> {got}, expected {want} (value of the latest store)", {})
            if k in m.val:
                m.use(k)
                res.count("hits")
        elif op == "get":
            got = _guard(desc, n, lambda: c.get(k, "dflt"))
            want = ("ok", m.val.get(k, "dflt"))
            if got != want:
                mech = "lookup-value"
                if k in m.val and got == ("ok", m.prev_val.get(k, object())):
                    mech = "store-present-key-keeps-old-value"
                raise Violation(mech, f"c.get({k!r}) -> {got}, expected {want}", {})
            if k in m.val:
                m.use(k, exact=False)
        elif op == "del":
            got = _guard(desc, n, lambda: c.__delitem__(k))
            want = ("ok", None) if k in m.val else ("exc", "KeyError")
            if got != want:
                raise Violation("exception-mismatch", f"del c[{k!r}] -> {got}, expected {want}", {})
            if k in m.val:
                m.drop(k)
        elif op == "contains":
            got = _guard(desc, n, lambda: k in c)
            if got != ("ok", k in m.val):
                raise Violation("membership", f"{k!r} in c -> {got}, expected {k in m.val}", {})
            if k in m.val:
                m.use(k, exact=False)
        elif op in ("len", "list"):
            pass
        elif op == "keys":
            got = _guard("keys()", n, lambda: list(c.keys()))
            if got[0] != "ok" or sorted(got[1], key=repr) != sorted(m.val, key=repr):
                raise Violation("view-content-incomplete", f"list(keys()) -> {got}, reference keys {sorted(m.val, key=repr)}", {})
        elif op in ("values", "items"):
            got = _guard(f"{op}()", n, lambda: list(getattr(c, op)()))
            if got[0] != "ok":
                raise Violation("operation-raised", f"{op}() raised {got[1]}", {})
            if op == "values":
                okv = sorted(map(repr, got[1])) == sorted(map(repr, m.val.values()))
            else:
                okv = sorted(map(repr, got[1])) == sorted(map(repr, m.val.items()))
            if not okv:
                mech = "view-content-incomplete" if len(got[1]) != len(m.val) else "view-content"
                if len(got[1]) == len(m.val) and any(
                        repr(x) in {repr(p) for p in m.prev_val.values()} | {repr((kk, p)) for kk, p in m.prev_val.items()}
                        for x in got[1]):
                    mech = "store-present-key-keeps-old-value"
                raise Violation(mech, f"{op}() -> {got[1]!r} but the content is {m.val!r}", {})
            res.count("views_completed")
            for kk in m.val:
                m.use(kk, exact=False)
        elif op == "pop":
            got = _guard(desc, n, lambda: c.pop(k, "dflt") if aux % 2 else c.pop(k))
            if k in m.val:
                want = ("ok", m.val[k])
            else:
                want = ("ok", "dflt") if aux % 2 else ("exc", "KeyError")
            if got != want:
                mech = "lookup-value"
                if k in m.val and got == ("ok", m.prev_val.get(k, object())):
                    mech = "store-present-key-keeps-old-value"
                raise Violation(mech, f"c.pop({k!r}) -> {got}, expected {want}", {})
            if k in m.val:
                m.drop(k)
        elif op == "popitem":
            got = _guard("popitem()", n, lambda: c.popitem())
            if n == 0:
                if got != ("exc", "KeyError"):
                    raise Violation("exception-mismatch", f"popitem() on empty cache -> {got}", {})
            else:
                if got[0] != "ok" or not isinstance(got[1], tuple) or len(got[1]) != 2 or got[1][0] not in m.val \
                        or m.val[got[1][0]] != got[1][1]:
                    mech = "view-content"
                    if got[0] == "ok" and isinstance(got[1], tuple) and got[1][0] in m.val and \
                            got[1][1] == m.prev_val.get(got[1][0], object()):
                        mech = "store-present-key-keeps-old-value"
                    raise Violation(mech, f"popitem() -> {got}, not a (key, value) pair of {m.val!r}", {})
                m.drop(got[1][0])
        elif op == "partial_view" and n:
            # a view iterator that is abandoned part-way (next(iter(c.values())), any(...) that stops early): whatever it counts
            # as uses, the cache stays consistent
            which = ["keys", "values", "items"][aux % 3]
            take = 1 + aux % max(1, n)
            got = _guard(f"first {take} of {which}()", n, lambda: list(__import__("itertools").islice(getattr(c, which)(), take)))
            if got[0] != "ok" or len(got[1]) != min(take, n):
                raise Violation("operation-raised", f"taking the first {take} of {which}() of {n} entries -> {got}", {})
            if which != "keys":
                for kk in m.val:
                    m.use(kk, exact=False)
            desc = f"first {take} of {which}()"
        elif op == "fork_check" and n <= 40:
            kk = next(iter(m.val), k)
            order_now = _guard("list(cache)", n, lambda: list(c))
            bad = fork_check(c, order_now[1], (lambda: kk in c), ("ok", kk in m.val), "LFUCache")
            if bad:
                raise Violation("fork-view", bad, {})
            res.count("histories_looked_at_from_a_forked_child")
        elif op == "shallow_copy" and 1 <= n <= 40 and k in m.val:
            # copy.copy of the cache, then a store of a present key through the copy: the original either follows completely (the
            # copy is an alias) or not at all (an independent copy) - never half
            import copy
            c2 = copy.copy(c)
            v2 = ("through-the-copy", step)
            got = _guard("store through a copy.copy of the cache", n, lambda: c2.__setitem__(k, v2))
            if got[0] != "ok":
                raise Violation("operation-raised", f"store through copy.copy of the cache raised {got[1]}", {})
            now = _guard("lookup", n, lambda: c[k])
            if now == ("ok", v2):
                m.prev_val[k] = m.val[k]
                m.val[k] = v2
                m.use(k)
                m.use(k)                # the store through the alias and the lookup just made
                res.count("shallow_copies_that_are_aliases")
                if n >= cap:
                    # the copy is an alias: a NEW key stored through it (an eviction) shows in the original exactly as in the copy
                    newk = 10 ** 9 + step          # a key no history uses
                    before_keys = set(m.val)
                    got = _guard("store of a new key through the alias", n, lambda: c2.__setitem__(newk, step))
                    l1, l2 = _guard("list(cache)", n, lambda: list(c)), _guard("list(copy)", n, lambda: list(c2))
                    if got[0] != "ok" or l1[0] != "ok" or l2[0] != "ok" or sorted(map(repr, l1[1])) != sorted(map(repr, l2[1])):
                        raise Violation("content-mismatch", f"a new key stored through copy.copy (an alias a moment ago): original lists {l1}, "
                                        f"the copy lists {l2}", {})
                    for kk in l1[1]:
                        a1, a2 = _guard("lookup", n, lambda: c[kk]), _guard("lookup", n, lambda: c2[kk])
                        if a1[0] != "ok" or a1 != a2:
                            raise Violation("lookup-value", f"after an eviction through copy.copy (an alias): the original lists {kk!r} and answers "
                                            f"{a1}, the copy answers {a2}", {})
                    gone = before_keys - set(l1[1])
                    if len(gone) != 1 or newk not in l1[1]:
                        raise Violation("wrong-victim", f"storing a new key through the alias left keys {l1[1]!r} (before: {sorted(map(repr, before_keys))})", {})
                    m.drop(next(iter(gone)))
                    m.val[newk], m.lo[newk], m.hi[newk] = step, 1, 1
                    for kk in l1[1]:
                        m.use(kk)
                        m.use(kk)
            elif now == ("ok", m.val[k]):
                m.use(k)                # the lookup just made
                res.count("shallow_copies_that_are_independent")
            else:
                raise Violation("lookup-value", f"after a store of {k!r} through copy.copy of the cache the original answers {now}; it held "
                                f"{m.val[k]!r}, the copy was given {v2!r}", {})
            desc = f"store {k!r} through a copy.copy"
        elif op == "clone":
            # the caller goes on with a copy of the cache (copy.deepcopy / a pickle round trip, e.g. a cache handed to
            # another process): the copy is a cache with the same content, recency / use counts included
            if n > 40:
                continue
            import copy
            import pickle
            if aux % 4 >= 2:
                # a shallow copy (it shares the storage with the original) and one of the two handles is dropped and collected:
                # the survivor is the cache it was
                import gc
                got = _guard("copy.copy of the cache", 4 * n + 10, lambda: copy.copy(c))
                if got[0] != "ok" or type(got[1]) is not type(c):
                    raise Violation("operation-raised", f"copy.copy of a cache with {n} entries -> {got}", {})
                if aux % 4 == 2:
                    c = got[1]
                    desc = "a copy.copy of the cache taken, the original dropped and collected; continuing with the copy"
                else:
                    desc = "a copy.copy of the cache taken, dropped and collected; continuing with the original"
                got = None
                gc.collect()
                res.count("shallow_copies_with_one_handle_dropped")
            else:
                how = "deepcopy" if aux % 2 else "pickle"
                got = _guard(f"{how} of the cache", 4 * n + 10, (lambda: copy.deepcopy(c)) if aux % 2 else (lambda: pickle.loads(pickle.dumps(c))))
                if got[0] != "ok" or type(got[1]) is not type(c):
                    raise Violation("operation-raised", f"{how} of a cache with {n} entries -> {got}", {})
                c = got[1]
                desc = f"continuing with a {how} of the cache"
                res.count("clones_continued_with")
        elif op == "clear":
            got = _guard("clear()", n, lambda: c.clear())
            if got != ("ok", None):
                raise Violation("operation-raised", f"clear() -> {got}", {})
            for kk in list(m.val):
                m.drop(kk)
        elif op == "update":
            # stores of present keys only + at most one new key while not full: victims stay unambiguous
            ks = [kk for kk in (keys[(ki + j * 7 + aux) % len(keys)] for j in range(1 + aux % 3)) if kk in m.val]
            ks = list(dict.fromkeys(ks))
            pairs = [(kk, (v + j, step)) for j, kk in enumerate(ks)]
            desc = f"update({pairs!r})"
            got = _guard(desc, n + len(pairs), lambda: c.update(dict(pairs) if aux % 2 else pairs))
            if got != ("ok", None):
                raise Violation("operation-raised", f"{desc} -> {got}", {})
            for kk, vv in pairs:
                m.prev_val[kk] = m.val[kk]
                m.val[kk] = vv
                m.use(kk)
        elif op == "setdefault":
            v = (v, step)
            if k not in m.val and n >= cap:
                continue  # would be an overflow store; covered by 'set'
            got = _guard(desc, n, lambda: c.setdefault(k, v))
            want = ("ok", m.val[k]) if k in m.val else ("ok", v)
            if got != want:
                mech = "lookup-value"
                if k in m.val and got == ("ok", m.prev_val.get(k, object())):
                    mech = "store-present-key-keeps-old-value"
                raise Violation(mech, f"c.setdefault({k!r}) -> {got}, expected {want}", {})
            if k in m.val:
                m.use(k, exact=False)
            else:
                m.val[k], m.lo[k], m.hi[k] = v, 1, 1
        elif op in ("eq_dict", "ne_dict"):
            other = dict(m.val)
            want = True
            if op == "ne_dict":
                other[k] = "different"
                want = False
            got = _guard(f"== ({op})", 2 * n, lambda: c == other)
            if got != ("ok", want):
                mech = "view-content"
                if m.prev_val:
                    alt = dict(m.val)
                    alt.update(m.prev_val)
                    if op == "eq_dict" and got == ("ok", False):
                        mech = "view-content-or-stale-value"
                raise Violation(mech, f"cache == dict(content) with content {m.val!r} -> {got}, expected {want}", {})
            res.count("views_completed")
            for kk in m.val:
                m.use(kk, exact=False)
        res.evaluations += 1
        res.count("op_" + op)
        order = observe(c, m, desc, res)
        if len(order) >= 2:
            res.seen((cap, tuple(order), tuple((m.lo[x], m.hi[x]) for x in order)))
    g = outcome(lambda: (sorted(comp), len(comp), comp["companion-a"], comp["companion-b"]))
    if g != ("ok", (["companion-a", "companion-b"], 2, "x", "y")):
        raise Violation("other-instance-disturbed", f"a second cache that holds companion-a/companion-b and was not touched during the "
                        f"history answers (keys, len, values) -> {g}", {})


def plan(tier, seed):
    return seq.std_plan(__import__(MOD, fromlist=["x"]), tier, seed)


def run_shard(spec):
    instr.install(["windpyutils.structures.caches", "windpyutils.structures.lists"])
    return seq.std_run_shard(__import__(MOD, fromlist=["x"]), spec)


def replay(doc):
    instr.install(["windpyutils.structures.caches", "windpyutils.structures.lists"])
    return seq.std_replay(__import__(MOD, fromlist=["x"]), doc)


RULE += ' Also (wave 9): shallow copies of the cache with one of the two handles dropped and collected; every fourth shard with DEBUG logging.'
