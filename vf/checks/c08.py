"""
C08 - DoublyLinkedList behaves as a sequence and keeps its links and length consistent.

Monitor shape: reference model (python list of node identities) + structural walk after every
operation; payload independence decided differentially (the same structural histories are run
with distinct / all-equal / NaN / eq-raising payloads against one payload-blind model).
"""
from vf import common, instr, seq
from vf.common import Violation

PROP = "C08"
LEVEL = "exploration"
RULE = ("seeded random histories over append, prepend, extend, pre_extend, remove, pop_back, pop_front, "
        "move_to_front, move_to_back, move_after (incl. node==after), rotate(both directions), extend/pre_extend with lazy iterables that observe len(l) while consumed and may fail midway; target nodes "
        "drawn from the model; each history is run once per payload class (distinct ints, all equal, NaN, falsy values / None, "
        "few-valued, __eq__ raising) and 'long' histories start from 1200 (quick) / 3000 (thorough) equal "
        "payloads. After every operation the oracle compares forward identity sequence, list(l), len, backward "
        "walk, head/tail ends with the model. distinct_nontrivial = distinct (payload-class, identity-order) "
        "states of length>=2 reached.")
ASSUMPTIONS = [
    "operations are applied only to nodes that belong to the list (the property's precondition)",
    "the model is a python list of node identities; payloads are never compared by the oracle (only `is`)",
]
BASE_CASES = {"quick": 8000, "thorough": 120000}
NCASES = {"quick": 9600, "thorough": 144000}
NSHARDS = 16
SHARD_TIMEOUT = {"quick": 300, "thorough": 3600}

PAYLOADS = ["distinct", "equal", "nan", "few", "raising_eq", "falsy", "none", "nodes"]
OPS = ["append", "prepend", "extend", "pre_extend", "remove", "pop_back", "pop_front", "move_to_front",
       "move_to_back", "move_after", "rotate_fb", "rotate_bf", "extend_lazy", "pre_extend_lazy"]


class EqCalled(Exception):
    pass


class RaisingEq:
    __slots__ = ("n",)

    def __init__(self, n):
        self.n = n

    def __eq__(self, other):
        raise EqCalled("payload __eq__ was called")

    __hash__ = None

    def __repr__(self):
        return f"RaisingEq({self.n})"


def make_payload(kind, counter):
    if kind == "distinct":
        return counter
    if kind == "equal":
        return 7
    if kind == "nan":
        return float("nan")
    if kind == "few":
        return counter % 2
    if kind == "falsy":
        return [None, 0, "", (), False, 0.0, [], None][counter % 8]
    if kind == "none":
        return None
    if kind == "nodes":
        # payloads that are nodes of another list, lists, dicts, the list class itself: a payload is opaque
        from windpyutils.structures.lists import DoublyLinkedList, DoublyLinkedListNode
        return [DoublyLinkedListNode(counter), [counter], {"n": counter}, DoublyLinkedList, DoublyLinkedListNode(None)][counter % 5]
    return RaisingEq(counter)


def gen_case(rng, tier, index):
    long_case = index % 40 == 0
    if long_case:
        n0 = 1200 if tier == "quick" else 3000
        nops = 25
        weights = {"move_after": 8, "move_to_front": 3, "move_to_back": 3, "remove": 1, "append": 1, "rotate_fb": 1,
                   "rotate_bf": 1, "pop_back": 1}
    else:
        n0 = rng.choice([0, 0, 1, 2, 3, 5, 8])
        nops = rng.randint(5, 60 if tier == "quick" else 150)
        weights = {o: 2 for o in OPS}
        for o in rng.sample(OPS, 3):
            weights[o] = 6
    names = list(weights)
    ops = []
    for _ in range(nops):
        o = rng.choices(names, [weights[n] for n in names])[0]
        ops.append([o, rng.randrange(1 << 20), rng.randrange(1 << 20), rng.randint(0, 4)])
    payload = PAYLOADS[index % len(PAYLOADS)] if not long_case else rng.choice(["equal", "few", "equal"])
    via_ctor = rng.random() < 0.5
    if not long_case and index % 3 == 1:
        # copies of the list in the middle of a history (drawn from a generator of their own: the histories above stay what
        # they were): a deep copy / pickle of the list TOGETHER with the caller's node handles, and shallow copies of which
        # one handle is dropped and collected
        import random
        r2 = random.Random(index * 7919 + 1)
        for _ in range(r2.randint(1, 3)):
            ops.insert(r2.randint(0, len(ops)), [r2.choice(["clone_with_handles", "shallow_copy_drop"]), r2.randrange(1 << 20), 0, 0])
    return {"payload": payload, "n0": n0, "ops": ops, "via_ctor": via_ctor}


def shrinkable(case):
    def rebuild(ops):
        c = dict(case)
        c["ops"] = ops
        return c
    return list(case["ops"]), rebuild


def describe(case):
    return {"payload": case["payload"], "n0": case["n0"], "ops": [o[0] for o in case["ops"]][:30]}


def classify_exc(e):
    if isinstance(e, (RecursionError, EqCalled)):
        return "node-value-equality"
    return "operation-raised"


def check_state(l, model, payload_of, opdesc, kind):
    n = len(model)
    # raw forward walk over next_node, bounded
    fwd = []
    node = l.head
    while node is not None and len(fwd) <= n + 1:
        fwd.append(node)
        node = node.next_node
    if [id(x) for x in fwd] != [id(x) for x in model]:
        raise Violation("forward-sequence", f"after {opdesc}: forward traversal differs from the reference sequence",
                        {"got_positions": _positions(fwd, model), "n": n, "payload": kind})
    with instr.budget(4000 + 60 * (n + 2)):
        try:
            api_nodes = list(l.iter_nodes())
            try:
                api_data = list(l)          # list() asks for the length first
                ln = len(l)
            except ValueError as e:         # a negative __len__
                raise Violation("length-mismatch", f"after {opdesc}: len(l) raised {e} (the list holds {n} elements)", {})
        except instr.StepBudgetExceeded:
            raise Violation("traversal-does-not-end", f"after {opdesc}: iteration exceeded its statement budget", {})
    if [id(x) for x in api_nodes] != [id(x) for x in model]:
        raise Violation("forward-sequence", f"after {opdesc}: iter_nodes() differs from the reference", {"n": n})
    if len(api_data) != n or any(a is not payload_of[id(m)] for a, m in zip(api_data, model)):
        raise Violation("forward-sequence", f"after {opdesc}: list(l) payloads differ from the reference", {"n": n})
    back = []
    node = l.tail
    while node is not None and len(back) <= n + 1:
        back.append(node)
        node = node.prev_node
    if [id(x) for x in back] != [id(x) for x in reversed(model)]:
        raise Violation("backward-links", f"after {opdesc}: backward walk from tail differs from the reversed reference",
                        {"got_positions": _positions(back, model), "n": n, "payload": kind})
    if n == 0:
        if l.head is not None or l.tail is not None:
            raise Violation("head-tail", f"after {opdesc}: empty list but head/tail not None", {})
    else:
        if l.head is not model[0] or l.tail is not model[-1]:
            raise Violation("head-tail", f"after {opdesc}: head/tail are not the first/last reference node", {})
        if l.head.prev_node is not None or l.tail.next_node is not None:
            raise Violation("head-tail", f"after {opdesc}: head.prev_node / tail.next_node not None", {})
    if ln != n:
        mech = "len-after-relink" if opdesc.split("(")[0] in ("move_to_front", "move_to_back", "move_after") or \
            "move" in opdesc else "len-mismatch"
        raise Violation(mech, f"after {opdesc}: len(l) == {ln} but the list holds {n} elements",
                        {"len": ln, "elements": n, "payload": kind})


def _positions(nodes, model):
    pos = {id(m): i for i, m in enumerate(model)}
    return [pos.get(id(x), "foreign") for x in nodes[:40]]


def run_case(case, res):
    from windpyutils.structures.lists import DoublyLinkedList
    kind = case["payload"]
    counter = [0]
    payload_of = _Births()

    def fresh():
        counter[0] += 1
        return make_payload(kind, counter[0])

    moved_before = [False]
    # a second, independent list lives next to the one under test
    comp = DoublyLinkedList(["companion-a"])
    comp.append("companion-b")
    init = [fresh() for _ in range(case["n0"])]
    try:
        if case["via_ctor"]:
            l = DoublyLinkedList(init)
        else:
            l = DoublyLinkedList()
            l.extend(init)
    except Exception as e:
        raise Violation(classify_exc(e), f"construction from {case['n0']} payloads raised {type(e).__name__}", {})
    model = []
    node = l.head
    while node is not None and len(model) <= case["n0"]:
        model.append(node)
        node = node.next_node
    if len(model) != case["n0"] or any(m.data is not p for m, p in zip(model, init)):
        raise Violation("forward-sequence", "constructor did not produce the given sequence", {})
    for m in model:
        payload_of[id(m)] = m.data
    check_state(l, model, payload_of, "construction", kind)

    quiet = bool(case.get("quiet"))
    for step, (op, a, b, k) in enumerate(case["ops"]):
        n = len(model)
        desc = op
        expect_exc = None
        try:
            with instr.budget(6000 + 80 * (n + k + 2)):
                if op == "append":
                    p = fresh()
                    node = l.append(p)
                    _new(node, p, payload_of, desc)
                    model.append(node)
                elif op == "prepend":
                    p = fresh()
                    node = l.prepend(p)
                    _new(node, p, payload_of, desc)
                    model.insert(0, node)
                elif op in ("extend", "pre_extend"):
                    ps = [fresh() for _ in range(k)]
                    desc = f"{op}({k})"
                    src_list = None
                    if a % 7 == 5 and op == "extend" and n >= 1:
                        # the worklist idiom: the iterable walks the very list that is being extended (like
                        # lst.extend(f(x) for x in lst)); every element - appended ones included - is visited until the
                        # iterable has produced k payloads
                        desc = f"extend({k} payloads produced while walking the list itself)"

                        def walking():
                            made = 0
                            for _ in l:
                                if made == k:
                                    return
                                yield ps[made]
                                made += 1
                        l.extend(walking())
                    elif a % 7 == 6:
                        # an array-like container: its truth value is ambiguous / false although it has elements
                        class _Arr:
                            def __init__(self, items):
                                self.items = list(items)

                            def __iter__(self):
                                return iter(self.items)

                            def __len__(self):
                                return len(self.items)

                            def __bool__(self):
                                if len(self.items) > 1:
                                    raise ValueError("The truth value of an array with more than one element is ambiguous")
                                return False
                        desc = f"{op}(array-like of {k})"
                        (l.extend if op == "extend" else l.pre_extend)(_Arr(ps))
                    elif a % 7 == 4 and op == "pre_extend" and 1 <= n <= 40:
                        # the list is its own source: every old element is prepended while the walk goes on through the old part
                        # (terminates: nothing is added behind the walker)
                        k = n
                        ps = [payload_of[id(m)] for m in model]
                        desc = f"pre_extend(the list itself, {n} elements)"
                        l.pre_extend(l)
                    elif a % 5 == 4:
                        # the payloads come from another DoublyLinkedList (an iterable like any other): afterwards the two
                        # lists share nothing - the source is intact and changing it does not show in this list
                        src_list = DoublyLinkedList(ps)
                        desc = f"{op}(another list of {k})"
                        (l.extend if op == "extend" else l.pre_extend)(src_list)
                    else:
                        (l.extend if op == "extend" else l.pre_extend)(ps if a % 2 else iter(ps))
                    # identify the new nodes structurally
                    if op == "extend":
                        new = []
                        node = l.tail
                        for _ in range(k):
                            if node is None:
                                break
                            new.append(node)
                            node = node.prev_node
                        new.reverse()
                        want = ps
                        model.extend(new)
                    else:
                        new = []
                        node = l.head
                        for _ in range(k):
                            if node is None:
                                break
                            new.append(node)
                            node = node.next_node
                        want = list(reversed(ps))
                        model[0:0] = new
                    if len(new) != k or any(x.data is not p for x, p in zip(new, want)):
                        raise Violation("forward-sequence", f"{desc} did not add the given payloads in order", {})
                    if src_list is not None:
                        got_src = []
                        node = src_list.head
                        while node is not None and len(got_src) <= k:
                            got_src.append(node)
                            node = node.next_node
                        if len(src_list) != k or len(got_src) != k or any(x.data is not p for x, p in zip(got_src, ps)) or \
                                (k and (src_list.head.prev_node is not None or src_list.tail.next_node is not None)) or \
                                any(x is y for x in got_src for y in new):
                            raise Violation("shared-nodes", f"{desc}: the source list is changed or shares nodes with the extended one", {})
                        src_list.append("appended to the source afterwards")
                        if k:
                            src_list.pop_front()
                    for x in new:
                        payload_of[id(x)] = x.data
                elif op in ("extend_lazy", "pre_extend_lazy"):
                    # a lazy iterable that (a) looks at the list while it is being consumed and (b) may fail midway; the
                    # caller handles the error. What was consumed before the error is in the list, everything is consistent.
                    ps = [fresh() for _ in range(k + 1)]
                    fail_at = (a % (k + 2)) if b % 2 else None
                    seen_len = []
                    base_len = n

                    class _Stop(Exception):
                        pass

                    def lazy():
                        for j, p in enumerate(ps):
                            if fail_at is not None and j == fail_at:
                                raise _Stop()
                            seen_len.append((j, len(l)))
                            yield p
                    desc = f"{op}({k + 1} lazily produced items, failing at {fail_at})"
                    try:
                        (l.extend if op == "extend_lazy" else l.pre_extend)(lazy())
                    except _Stop:
                        pass
                    took = ps if fail_at is None else ps[:fail_at]
                    for j, ln in seen_len:
                        if ln != base_len + j:
                            raise Violation("len-mismatch", f"{desc}: while the {j}-th new item was being produced len(l) was "
                                            f"{ln}, the list held {base_len + j} elements", {})
                    new = []
                    if op == "extend_lazy":
                        node = l.tail
                        # find the new nodes by walking back from the real end of the forward chain
                        chain = []
                        x = l.head
                        while x is not None and len(chain) <= n + len(ps) + 1:
                            chain.append(x)
                            x = x.next_node
                        new = chain[n:]
                        want = took
                        model.extend(new)
                    else:
                        chain = []
                        x = l.head
                        while x is not None and len(chain) <= n + len(ps) + 1:
                            chain.append(x)
                            x = x.next_node
                        new = chain[:max(0, len(chain) - n)]
                        want = list(reversed(took))
                        model[0:0] = new
                    if len(new) != len(took) or any(x.data is not p for x, p in zip(new, want)):
                        raise Violation("forward-sequence", f"{desc}: the list does not hold exactly the {len(took)} items that "
                                        f"were consumed before the error, in order", {})
                    for x in new:
                        payload_of[id(x)] = x.data
                elif op in ("pop_back", "pop_front"):
                    if n == 0:
                        expect_exc = "IndexError"
                    got = (l.pop_back if op == "pop_back" else l.pop_front)()
                    tgt = model.pop() if op == "pop_back" else model.pop(0)
                    if got is not payload_of[id(tgt)]:
                        raise Violation("wrong-return", f"{op} returned another payload than the removed element's", {})
                elif op == "remove":
                    if n == 0:
                        continue
                    i = a % n
                    desc = f"remove(#{i} of {n})"
                    l.remove(model[i])
                    del model[i]
                elif op in ("move_to_front", "move_to_back"):
                    if n == 0:
                        continue
                    i = a % n
                    desc = f"{op}(#{i} of {n})"
                    node = model[i]
                    getattr(l, op)(node)
                    del model[i]
                    if op == "move_to_front":
                        model.insert(0, node)
                    else:
                        model.append(node)
                elif op == "move_after":
                    if n == 0:
                        continue
                    i, j = a % n, b % n
                    desc = f"move_after(#{i}, after #{j} of {n})"
                    node, after = model[i], model[j]
                    l.move_after(node, after)
                    if i != j:
                        del model[i]
                        model.insert(_index_is(model, after) + 1, node)
                elif op == "clone_with_handles":
                    import copy
                    import pickle
                    if n > 50:
                        continue        # (the recursion depth of a deep copy grows with the length)
                    use_pickle = a % 2 == 0 and kind in ("distinct", "equal", "few", "falsy", "none")
                    desc = f"{'pickle round trip' if use_pickle else 'copy.deepcopy'} of (list, the caller's node handles); continuing with the copies"
                    l2, model2 = pickle.loads(pickle.dumps((l, model))) if use_pickle else copy.deepcopy((l, model))
                    if type(l2) is not type(l) or len(model2) != n:
                        raise Violation("forward-sequence", f"{desc}: the copy is a {type(l2).__name__} with {len(model2)} handles", {})
                    l, model = l2, model2
                    payload_of = _Births()
                    for m in model:
                        payload_of[id(m)] = m.data
                    res.count("copies_with_node_handles_continued_with")
                elif op == "shallow_copy_drop":
                    import copy
                    import gc
                    l2 = copy.copy(l)
                    if a % 2:
                        desc = "copy.copy of the list taken, the original dropped and collected; continuing with the copy"
                        l = l2
                    else:
                        desc = "copy.copy of the list taken, dropped and collected"
                    l2 = None
                    gc.collect()
                    res.count("shallow_copies_with_one_handle_dropped")
                elif op in ("rotate_fb", "rotate_bf"):
                    desc = f"rotate(front_to_back={op == 'rotate_fb'})"
                    l.rotate(front_to_back=(op == "rotate_fb"))
                    if n >= 2:
                        if op == "rotate_fb":
                            model.append(model.pop(0))
                        else:
                            model.insert(0, model.pop())
        except instr.StepBudgetExceeded:
            raise Violation("operation-does-not-end", f"{desc} exceeded its statement budget at n={n}", {"step": step})
        except Violation:
            raise
        except Exception as e:
            if expect_exc and type(e).__name__ == expect_exc:
                res.count("empty_pops_rejected")
            else:
                raise Violation(classify_exc(e),
                                f"{desc} raised {type(e).__name__} with payload class '{kind}' at length {n}",
                                {"step": step, "exc": repr(e)[:200]})
        else:
            if expect_exc:
                raise Violation("missing-exception", f"{desc} on the empty list did not raise {expect_exc}", {})
        res.evaluations += 1
        res.count("ops_" + op)
        if not quiet:
            check_state(l, model, payload_of, desc, kind)
        else:
            res.count("quiet_steps_not_followed_by_a_read")
        if len(model) >= 2:
            pos = tuple(_order_signature(model, payload_of['#birth']))
            res.seen((kind, pos) if len(pos) <= 12 else (kind, len(pos), pos[:6], pos[-6:]))
    if quiet:
        check_state(l, model, payload_of, f"the whole quiet history of {len(case['ops'])} operations", kind)
        res.count("quiet_histories")
    try:
        g = (list(comp), len(comp), comp.head.data, comp.tail.data, comp.head.next_node is comp.tail)
    except Exception as e:
        g = repr(e)
    if g != (["companion-a", "companion-b"], 2, "companion-a", "companion-b", True):
        raise Violation("other-instance-disturbed", f"a second list [companion-a, companion-b] that was not touched during the history "
                        f"now presents {g}", {})


class _Births(dict):
    """id(node) -> payload; remembers the creation rank of every node as a side table."""

    def __init__(self):
        super().__init__()
        dict.__setitem__(self, "#birth", {})

    def __setitem__(self, k, v):
        b = self["#birth"]
        if k not in b:
            b[k] = len(b)
        dict.__setitem__(self, k, v)


def _index_is(model, node):
    for i, m in enumerate(model):
        if m is node:
            return i
    raise AssertionError("node not in model")


def _order_signature(model, birth):
    # creation ranks in list order: the permutation reached, independent of payload values and addresses
    b = [birth[id(m)] for m in model]
    rank = {v: i for i, v in enumerate(sorted(b))}
    return [rank[v] for v in b]


def _new(node, p, payload_of, desc):
    if node is None or node.data is not p:
        raise Violation("wrong-return", f"{desc} did not return the node wrapping the new payload", {})
    payload_of[id(node)] = p


def plan(tier, seed):
    return seq.std_plan(__import__("vf.checks.c08", fromlist=["x"]), tier, seed)


def run_shard(spec):
    instr.install(["windpyutils.structures.lists"])
    return seq.std_run_shard(__import__("vf.checks.c08", fromlist=["x"]), spec)


def replay(doc):
    instr.install(["windpyutils.structures.lists"])
    return seq.std_replay(__import__("vf.checks.c08", fromlist=["x"]), doc)


RULE += ' Also (wave 9): deep copies / pickle round trips of (list, node handles) continued with the copies, shallow copies of the list with one handle dropped and collected.'


# ---- quiet histories (wave 12) ------------------------------------------------------------------------------------------
# Case indices above BASE_CASES repeat the ordinary generator (with its own random draws) but are observed only at the end of
# the history: the per-step observation reads the object through its public API, and a read can repair or overwrite state
# that one operation left behind for the next (a deferred update, a remembered position) before the next operation meets it.
_gen_case_ordinary = gen_case


def gen_case(rng, tier, index):
    if index >= BASE_CASES[tier]:
        c = _gen_case_ordinary(rng, tier, index - BASE_CASES[tier] + 1)
        c["quiet"] = True
        return c
    return _gen_case_ordinary(rng, tier, index)


RULE += (' Also (wave 12): quiet histories (case indices above BASE_CASES) whose steps are not followed by a read through the '
         'public API; the full comparison comes once, at the end of the history.')
