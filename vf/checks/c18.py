"""
C18 - One opened line/map file can be read from many forked processes at once.

Two observers on the same workload (file opened in the parent, 1-8 forked children / grandchildren
and the parent reading concurrently):
 (1) value oracle: every read of every process == reference line, with delays injected between the
     statement that seeks and the statement that reads (sys.monitoring LINE hooks, inherited by fork);
 (2) descriptor-ownership oracle at the system-call boundary: the workload re-runs under
     `strace -f -y`; an offline checker keeps, per process, the descriptors it opened itself and
     reports any lseek/read on the data file through an inherited descriptor - the "identity of the
     OS-level open file description per process" named by the property, observed directly.
"""
import json
import os
import shutil
import subprocess
import sys

from vf import common, forkread, pool_checks
from vf import pool_engine as pe

pe.DRIVERS["forkread"] = forkread.drive_forkread

PROP = "C18"
LEVEL = "exploration"
RULE = ("base cases: a 12-60 line UTF-8 file opened in the parent with RandomLineAccessFile, "
        "MemoryMappedRandomLineAccessFile, RecordFile, MemoryMappedRecordFile or MapAccessFile (dict / index file); the "
        "parent reads before forking (the inherited handle has a position and a filled buffer), then 1-8 children "
        "(os.fork, multiprocessing.Process, one level of grandchildren) and the parent read concurrently: random "
        "indices, negative indices, slices, full iterations (40-120 reads per process); in a quarter of the base cases a second thread of the parent is held in the middle of a read while the children are forked. Each base case: dry run, one run "
        "per (executed statement of the seek/read path, occurrence) with a 120 ms delay in the parent or in the "
        "children, random 2-3 delay combinations, and one run under strace -f for the descriptor-ownership checker. "
        "distinct_nontrivial = distinct (base case, delay plan) executions with >=2 processes reading.")
ASSUMPTIONS = [
    "reference = the file's lines as written by the harness (lines with carriage returns included); for MapAccessFile, which "
    "opens its file with newline translation, the reference is what the same object returned in the parent before any fork "
    "(the statement's own yardstick: the line a single process reads)",
    "a second thread of the parent may be inside a read while the main thread forks (it is held at a statement of the "
    "library, never inside a C-level I/O call); two threads of one process reading through one handle at the same time is "
    "not claimed by the statement and not exercised",
    "strace oracle: a process 'owns' a descriptor iff the openat that produced it was issued by that process (threads "
    "created with CLONE_FILES share their creator's table); reads through memory maps issue no system calls and have "
    "a per-process position, so only the buffered variants are visible to this oracle",
    "ptrace is permitted in the sandbox (verified); if strace cannot start, the strace part counts as inconclusive",
]
NBASES = {"quick": 24, "thorough": 120}
SHARD_TIMEOUT = {"quick": 400, "thorough": 3000}
SHARD_BUDGET_S = {"quick": 60, "thorough": 1200}
MOD = "vf.checks.c18"
MODULES = ["windpyutils.files"]
SWEEP_PREFIXES = ["RandomLineAccessFile", "MemoryMappedRandomLineAccessFile", "MapAccessFile", "BaseRandomLineAccessFile",
                  "BaseRecordFile"]
WORKER_QUALNAMES = ("RandomLineAccessFile._file_seek", "RandomLineAccessFile._read_line", "RandomLineAccessFile._read_next_line",
                    "RandomLineAccessFile.reopen_if_needed", "MemoryMappedRandomLineAccessFile._file_seek",
                    "MemoryMappedRandomLineAccessFile._read_next_line", "MapAccessFile.__getitem__",
                    "MapAccessFile.reopen_if_needed")
WORKER_ROLES = ["workerC0"]
# failpoints only at the statements of reopen_if_needed (i.e. instead of its close() / open() calls as a whole): a fault in
# the middle of open() itself (file opened, mmap failed) leaves a half-open object - robustness the property does not ask for
FAULT_QUALNAMES = ("RandomLineAccessFile.reopen_if_needed", "MapAccessFile.reopen_if_needed")
RANDOM_K = {"quick": 6, "thorough": 80}
DISTINCT_BY_PLAN = True
VARIANTS = ["RandomLineAccessFile", "MapAccessFile", "MemoryMappedRandomLineAccessFile", "RecordFile", "RandomLineAccessFile",
            "MapAccessFile", "MemoryMappedRecordFile", "RandomLineAccessFile"]


# bases 16-23: combinations that the periodic assignment below never produces (its periods 3, 4 and 6 against the 8 variants:
# e.g. twin objects would only ever meet the memory mapped variants)
TABLE = {16: ("RandomLineAccessFile", "os.fork", {"twin_objects": True, "children": 4}),
         17: ("RecordFile", "mp", {"twin_objects": True, "child_thread": True, "children": 4}),
         18: ("MapAccessFile", "os.fork", {"twin_objects": True, "children": 4}),
         19: ("RandomLineAccessFile", "os.fork", {"child_thread": True, "thread_reads_during_fork": 2}),
         20: ("RandomLineAccessFile", "os.fork", {"fd_tight": True}),
         21: ("MemoryMappedRandomLineAccessFile", "grand", {"child_thread": True, "other_object": "child_first"}),
         22: ("RecordFile", "os.fork", {"fd_tight": True}),
         23: ("MapAccessFile", "os.fork", {"fd_tight": True})}


def gen_base(rng, tier, index):
    if index >= 16:
        base = gen_base(rng, tier, index % 16)
        off = {"thread_reads_during_fork": None, "iter_across_fork": None, "other_object": None, "fd_tight": False, "twin_objects": False,
               "child_thread": False, "global_start_method": None}
        if index in TABLE:
            v, style, opts = TABLE[index]
            base.update(off)
            base.update(variant=v, fork_style=style, **opts)
        else:
            # thorough: the options drawn independently of the variant
            base.update(off)
            base.update(variant=VARIANTS[index % len(VARIANTS)], fork_style=rng.choice(["os.fork", "mp", "grand"]),
                        twin_objects=rng.random() < 0.3, child_thread=rng.random() < 0.3,
                        thread_reads_during_fork=rng.randrange(9) if rng.random() < 0.25 else None,
                        iter_across_fork=rng.randrange(50) if rng.random() < 0.35 else None,
                        other_object=rng.choice([None, None, "parent_before_fork", "child_first"]), fd_tight=rng.random() < 0.25,
                        global_start_method=rng.choice(["spawn", "forkserver"]) if rng.random() < 0.15 else None,
                        first_follows_parent=rng.random() < 0.5)
        return base
    v = VARIANTS[index % len(VARIANTS)]
    return {"kind": "forkread", "pool": "forkread", "variant": v, "nlines": rng.choice([12, 25, 60]),
            "children": rng.choice([1, 2, 3, 4, 8]) if tier == "thorough" else rng.choice([1, 2, 3, 4]),
            "workers": 2, "fork_style": ["os.fork", "mp", "grand"][index % 3], "reads": rng.choice([40, 80, 120]),
            "parent_reads_before": rng.choice([0, 3, 10]), "seed": rng.randrange(1 << 20),
            "map_from_file": rng.random() < 0.5, "pace": rng.choice([0, 0, 0.0005]), "calls": [],
            "first_follows_parent": index % 2 == 0,
            "thread_reads_during_fork": (index // 4) % 9 if index % 4 == 1 else None,
            "iter_across_fork": rng.randrange(50) if index % 4 in (0, 3) else None,
            "other_object": [None, "parent_before_fork", "child_first"][index % 3],
            "fd_tight": index % 6 == 0, "twin_objects": index % 4 == 2, "child_thread": index % 4 == 1, "global_start_method": ["spawn", "forkserver"][index % 2] if index % 5 == 2 else None}


def findings(case, result, res):
    fs, total, nprocs, done = forkread.read_findings(case, result)
    res.count("reads_compared", total)
    res.count("reading_processes", nprocs)
    for e in result.get("events", []):
        if e["ev"] == "descriptor_table_full":
            res.count("runs_forking_with_a_full_descriptor_table")
        if e["ev"] == "side_thread_gated":
            res.count("runs_forking_while_a_parent_thread_is_inside_a_read" if e.get("gated") else "runs_where_the_parent_thread_was_not_held")
            if e.get("gated"):
                res.add_to("statements_the_parent_thread_was_held_at", "%s+%s" % tuple(e["site"]))
    if not done and result.get("status") == "completed":
        fs.append(("workload-incomplete", "the workload ended without its final event"))
    return [("forkread", m, s) for m, s in fs]


def owns(kind, mech, case, result):
    return kind == "forkread"


def extra_runs(case, res, scratch, tier, rng):
    """The same workload under strace -f: descriptor ownership per process; once plain and once per function of
    FAULT_QUALNAMES with an injected OSError at its last statement (first occurrence, in the children)."""
    _strace_run(case, res, scratch, tier, None)
    done = set()
    for role, qn, rel in reversed(pe.worker_sites(tuple(FAULT_QUALNAMES))):
        if qn in done or not qn.endswith("reopen_if_needed"):
            continue
        done.add(qn)
        if ("MapAccessFile" in qn) != (case["variant"] == "MapAccessFile"):
            continue
        _strace_run(case, res, scratch, tier, [["worker*", qn, rel, 1, "raise_os", 24]])


def _strace_run(case, res, scratch, tier, plan):
    d = os.path.join(scratch, "strace")
    shutil.rmtree(d, ignore_errors=True)
    os.makedirs(d)
    cp = os.path.join(d, "case.json")
    op = os.path.join(d, "events.jsonl")
    tp = os.path.join(d, "trace.txt")
    c = dict(case)
    c["reads"] = min(case["reads"], 40)
    if plan:
        c["plan"] = plan
    with open(cp, "w") as f:
        json.dump(c, f)
    env = dict(os.environ)
    env["PYTHONPATH"] = common.VERIF_ROOT + os.pathsep + common.REPO
    env["VERIF_REPO"] = common.REPO
    cmd = ["strace", "-f", "-y", "-o", tp, "-e", "trace=openat,lseek,read,pread64,readv,preadv,close,dup,dup2,dup3,clone,clone3,fork,vfork",
           sys.executable, "-m", "vf.forkread", cp, op]
    try:
        p = subprocess.run(cmd, env=env, cwd=common.VERIF_ROOT, stdout=subprocess.DEVNULL, stderr=subprocess.PIPE,
                           timeout=120, start_new_session=True)
    except subprocess.TimeoutExpired:
        res.inconclusive.append({"reason": "strace run exceeded 120 s", "case": case})
        return
    except FileNotFoundError:
        res.inconclusive.append({"reason": "strace not available", "case": case})
        return
    events = []
    if os.path.exists(op):
        with open(op) as f:
            events = [json.loads(l) for l in f if l.strip()]
    done = [e for e in events if e["ev"] == "workload_done"]
    if p.returncode != 0 or not done:
        res.inconclusive.append({"reason": f"strace run rc={p.returncode}: {p.stderr.decode(errors='replace')[-300:]}",
                                 "case": case})
        return
    res.evaluations += 1
    res.count("strace_runs")
    fs, total, nprocs, _ = forkread.read_findings(case, {"events": events, "status": "completed"})
    res.count("reads_compared", total)
    for mech, summary in fs:
        res.violation(mech, "[under strace] " + summary, {"case": c})
    if any(e.get("recovered") for e in events if e["ev"] == "reads_done"):
        res.count("strace_runs_with_recovered_faults")
    viol, stats = forkread.check_trace(tp, done[0]["data_path"])
    res.count("strace_syscalls_on_data_file", stats["syscalls_on_data_file"])
    res.count("strace_opens_of_data_file", stats["opens_of_data_file"])
    res.count("strace_processes_traced", stats["processes"])
    res.count("strace_processes_reading_data_file", stats["processes_reading_data_file"])
    if "MemoryMapped" not in case["variant"] and stats["syscalls_on_data_file"] == 0:
        res.inconclusive.append({"reason": "strace saw no read of the data file (oracle not reached)", "case": case})
    if viol:
        res.violation("inherited-descriptor-used", f"{case['variant']} ({case['fork_style']}, {case['children']} children): "
                      + viol[0], {"case": c, "trace_findings": viol, "stats": stats, "strace": True})
    res.seen(("strace", case["variant"], case["fork_style"], case["children"], case["seed"], repr(plan)))


def plan(tier, seed):
    return pool_checks.plan(__import__(MOD, fromlist=["x"]), tier, seed)


def run_shard(spec):
    return pool_checks.run_shard(__import__(MOD, fromlist=["x"]), spec)


def replay(doc):
    mod = __import__(MOD, fromlist=["x"])
    if doc["replay"].get("strace"):
        from vf import instr
        instr.install(MODULES)
        res = common.ShardResult()
        sc = common.scratch_dir("vf-c18-replay-")
        try:
            rc = doc["replay"]["case"]
            _strace_run(rc, res, sc, "quick", rc.get("plan"))
        finally:
            shutil.rmtree(sc, ignore_errors=True)
        if res.violations:
            return True, "reproduced: " + res.violations[0]["summary"]
        return False, "strace run found no use of an inherited descriptor"
    return pool_checks.replay(mod, doc)


RULE += ' Also (waves 8-9): bases 16-23 pair twin objects / child threads / a parent thread inside a read / a full descriptor table with the buffered and record variants explicitly; thorough draws the options independently of the variant from base 24 on.'
