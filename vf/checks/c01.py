"""
C01 - Ordered imap returns exactly map(f, data), once each, in input order.

Monitor shape: offline checker over the consumer's yield history (items are unique, so every
yielded value names the input that produced it): sequence equality for imap, multiset equality +
per-chunk order for imap_unordered. Reach: configuration grid x data delays x sweep of one
injected delay over every executed statement of feeder / consumer / replacer / worker code
(sys.monitoring LINE hooks), random pairs/triples, forced GIL hand-offs.
"""
from vf import pool_checks

PROP = "C01"
LEVEL = "exploration"
RULE = ("base cases: single call on a fresh FunctorPool / FactoryFunctorPool (no quota) drawn from workers 1-4, "
        "work_queue_maxsize in {None,1,2,0.5,1.0,2.0}, results_queue_maxsize in {None,1,2,3}, chunk 1-7, lengths 0, "
        "<workers, k*chunk, k*chunk+1 up to 40, ordered/unordered, input as list/tuple/generator/iterator/slow "
        "iterator, per-item functor delays that make a chosen chunk the slowest / reverse the arrival order. Each "
        "base case is executed once undisturbed, then once per (statement executed in the dry run, occurrence in "
        "{1,last,(random)}) with a 150 ms delay injected there (every one-preemption schedule at statement "
        "granularity of consumer, SendWorkThread, ReplaceWorkerThread and worker code), plus random 2-3 delay "
        "combinations and runs with forced GIL hand-offs. evaluations = executions whose yield history was checked; "
        "Also: data items that are lists (default chunk size), array-like containers with an ambiguous / false truth value, equal-but-different twin items and exception objects as results, results and data items larger than a pipe buffer, functors of 6 s per item. "
        "distinct_nontrivial = distinct (base case, set of thread-switch pairs observed, plan size).")
ASSUMPTIONS = [
    "functors return normally; generators are fully consumed (the property's precondition)",
    "a run that ends in a deadlock is not a value verdict (it is C02's violation) - counted separately",
    "payload-free entries left in the results queue (None / wake-up tokens) are ignored, as the property says",
    "delays are injected only at statement starts of the repository's code, in preemptible threads / processes: every "
    "schedule produced is one the OS could produce",
]
NBASES = {"quick": 16, "thorough": 160}
SHARD_TIMEOUT = {"quick": 400, "thorough": 3000}
MOD = "vf.checks.c01"
START_METHODS = True
INSTR_HOT = ("FunctorPool.imap", "FunctorPool.imap_unordered", "FunctorPool._get_results", "FunctorPool.SendWorkThread.run",
             "FactoryFunctorPool.ReplaceWorkerThread.run", "FactoryFunctorPool.ReplaceWorkerThread.stop", "CMThread.stop")
INSTR_SAMPLE = 70
INSTR_AUTO = ("FunctorPool.*", "FactoryFunctorPool.*", "CMThread.*")


def gen_base(rng, tier, index):
    if index == 13 or (tier == "thorough" and index % 40 == 13):
        # functors that take seconds per item (longer than any plausible internal polling interval): a bounded work
        # queue stays full for a long time while the feeder waits
        return {"pool": "factory" if index % 2 else "functor", "workers": 1, "wq": 1, "rq": None, "no_sweep": True, "limit_factor": 3,
                "calls": [{"ordered": index % 4 < 2, "n": 3, "chunk": 1, "form": "list",
                           "durations": {"mode": "all", "t": 6.2 if tier == "quick" else rng.choice([6.2, 11.0])}}]}
    workers = rng.choice([1, 2, 2, 3, 4])
    chunk = rng.choice([1, 1, 2, 3, 5, 7])
    kind = index % 8
    if kind == 0:
        n = 0
    elif kind == 1:
        n = rng.randint(1, max(1, workers - 1))
    elif kind == 2:
        n = chunk * rng.randint(1, 5)
    elif kind == 3:
        n = chunk * rng.randint(1, 5) + 1
    else:
        n = rng.randint(2, 40)
    call = {"ordered": index % 3 != 2, "n": n, "chunk": chunk,
            "form": rng.choice(["list", "list", "tuple", "gen", "iter", "slow", "deque", "intseq", "range_like", "array_like"]), "salt": rng.randrange(1000),
            "list_items": index % 3 == 1}
    if index % 16 in (6, 14):
        # array-like containers (ambiguous / false truth value) in every run: with several elements and with exactly one
        call["form"] = "array_like"
        if index % 16 == 14:
            n = call["n"] = 1
        elif n < 2:
            n = call["n"] = 2 + index % 5
    if index % 8 == 7 and n:
        # big results / big data items (more than a pipe buffer of 64 KiB each)
        n = call["n"] = min(n, 8)
        call["result_size" if index % 16 == 7 else "item_size"] = rng.choice([70_000, 200_000])
    if index % 16 == 2 and n:
        # equal-but-different items next to each other (1 and 1.0: ==, same hash, other type), f reports what it saw
        call["twins"] = True
        call["list_items"] = False
        chunk = call["chunk"] = rng.choice([2, 4, 5])
    elif index % 16 == 10 and n:
        call["exc_results"] = True      # f returns exception objects as ordinary values
        call["list_items"] = False
    if call["list_items"] and index % 2 == 0:
        chunk = call["chunk"] = 1           # the default chunk size with items that are lists
    nchunks = max(1, -(-n // chunk))
    dm = rng.choice([None, "slow_chunk", "slow_chunk", "alternate", "hash", "decreasing"])
    if dm:
        call["durations"] = {"mode": dm, "t": rng.choice([0.005, 0.02, 0.04]), "chunk": rng.choice([0, 0, nchunks - 1, nchunks // 2]),
                             "phase": rng.randrange(2), "nchunks": nchunks}
    if call["form"] == "slow":
        call["slow"] = {"before": {str(rng.randrange(max(1, n))): rng.choice([0.01, 0.05])} if n else {},
                        "stop": rng.choice([0, 0.02, 0.1])}
    if index % 4 == 1 and n and call["form"] in ("list", "tuple", "gen", "iter", "slow", "deque"):
        call["nones"] = sorted({rng.randrange(n) for _ in range(rng.randint(1, 3))})   # None as a data item
    case = {"pool": "factory" if index % 4 == 3 else "functor", "workers": workers,
            "wq": rng.choice([None, 1, 2, 0.5, 1.0, 1.0, 2.0]), "rq": rng.choice([None, None, 1, 2, 3]),
            "calls": [call], "ready_first": rng.random() < 0.2}
    if index % 16 == 9:
        # a two-stage pipeline: another pool's ordered imap is the input (two ordered calls alive at once, both holding
        # out-of-order chunks back: alternating chunk durations)
        call = {"ordered": True, "n": 14 + index % 5, "chunk": 2, "form": "list", "salt": 1,
                "durations": {"mode": "alternate", "t": 0.03, "chunk": 0, "phase": index % 2, "nchunks": 8}}
        case.update(calls=[call], nested_pool=True, workers=max(2, case["workers"]), pool="functor")
    if index % 16 == 3 and n:
        call.update(form="callable_iter")        # a data-set object that is iterable AND callable (its __call__ is unrelated)
        call.pop("slow", None)
        call.pop("nones", None)
    if index % 16 == 12 and n:
        call.update(chunk=n + 5, chunk_special=["maxsize", "inf", "huge"][(index // 16) % 3])     # everything in one chunk
        call.pop("durations", None)
    if index % 8 == 4 and not (call.get("twins") or call.get("exc_results")):
        # two more calls on the same pool, all three result generators created before the first one is consumed
        second = dict(call, n=max(0, n - 3), salt=call["salt"] + 1)
        case["calls"] = [call, second, dict(call, n=0)] if index % 16 == 4 else [dict(call, n=0), call, second]
        case["create_all_first"] = True
    return case


def owns(kind, mech, case, result):
    return kind == "value"


def plan(tier, seed):
    return pool_checks.plan(__import__(MOD, fromlist=["x"]), tier, seed)


def run_shard(spec):
    return pool_checks.run_shard(__import__(MOD, fromlist=["x"]), spec)


def replay(doc):
    return pool_checks.replay(__import__(MOD, fromlist=["x"]), doc)


RULE += ' Also (waves 8-9): huge / infinite chunk sizes, a pool feeding a pool (two ordered calls alive at once), an iterable that is callable as well.'
