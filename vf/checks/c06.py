"""
C06 - LRUCache is a bounded mapping that evicts exactly the least recently used key.

Monitor shape: reference model (recency-ordered list + dict) compared after every operation of a
generated history; step budget (repository statements) as bounded-progress oracle for the
"views terminate" part; best-effort structural walk (dict vs. recency list).
"""
from vf import common, instr, seq
from vf.common import Violation
from vf.seq import outcome

PROP = "C06"
LEVEL = "exploration"
RULE = ("seeded random histories (30-400 operations) over capacities 1-8 and 64 with a key universe of "
        "capacity+1..capacity+4 keys (ints, and mixed int/str/tuple keys): store, c[k], get, del, in, len, "
        "list, keys, values, items, nested (interleaved) view iterations, pop, popitem, clear, update, setdefault, == and != (equal dict, dict differing in a value, dict of the same size with another key set while the cache holds None, other cache). After "
        "every operation: result or exception class, len<=max_size, list(c) == model recency order, evicted key "
        "== model LRU; views/==/popitem must finish within 2000+200*(n+1)^2 repository statements and agree "
        "with the content. distinct_nontrivial = distinct (capacity, recency order, values) states with >=2 keys.")
ASSUMPTIONS = [
    "membership tests may or may not refresh recency: the model adopts whichever of the two orders is observed",
    "views, ==, popitem, setdefault on a present key may count their internal lookups as uses: afterwards any "
    "permutation of the same keys is adopted as the new recency order (content must still agree exactly)",
    "keys are hashable and compared by ==/hash like dict keys",
]
BASE_CASES = {"quick": 6000, "thorough": 150000}
NCASES = {"quick": 7200, "thorough": 180000}
NSHARDS = 16
SHARD_TIMEOUT = {"quick": 300, "thorough": 3600}

OPS = ["set", "set", "set", "getitem", "getitem", "get", "del", "contains", "len", "list", "keys", "values", "items", "nested",
       "pop", "popitem", "clear", "update", "setdefault", "eq_dict", "eq_cache", "ne_dict", "ne_keys"]
MOD = "vf.checks.c06"


TEXT_KEYS = ['e\u0301', '\u00e9', 'A\u030a', '\u00c5', '\u212b', 'a', ' a', 'A', 'ss', '\u00df', '1', '\uff11', 'a/b', 'a/./b', 'a\n',
             'a\r\n', ' ', '\ufeffa', '\ufb01', 'fi']       # canonically / compatibility / case / blank equivalent, but different strings


def keyspace(kind, n):
    if kind == "text":
        return [TEXT_KEYS[i % len(TEXT_KEYS)] + ("" if i < len(TEXT_KEYS) else str(i)) for i in range(n)]
    if kind == "int":
        return list(range(n))
    if kind == "bigint":
        return [10 ** 6 + i for i in range(n)]     # beyond the small-int cache: equal keys are different objects
    ks = []
    for i in range(n):
        ks.append([i, f"k{i}", ("t", i)][i % 3])
    if n >= 4:
        ks[3] = None        # None, '' and () are hashable keys like any other
    if n >= 6:
        ks[5] = ""
    if n >= 8:
        ks[7] = ()
    return ks


def gen_case(rng, tier, index):
    if index % 150 == 10:
        return {"special": "nan_key", "ops": []}
    if index % 600 == 11:
        return {"special": "many_ties", "n": rng.choice([4100, 4500, 9000]), "ops": []}
    cap = rng.choice([1, 1, 2, 2, 3, 3, 4, 5, 6, 7, 8, 64]) if index % 7 else rng.choice([1, 2, 3])
    extra = rng.randint(1, 4)
    nkeys = cap + extra
    nops = rng.randint(30, 120 if tier == "quick" else 400)
    if cap == 64:
        nops = rng.randint(150, 400)
    w = {o: 1 for o in set(OPS)}
    w["set"] = 8
    w["getitem"] = 6
    w["get"] = 2
    w["contains"] = 2
    w["clear"] = 0.2
    w["clone"] = 0.4
    w["fork_check"] = 0.15
    viewless = index % 3 == 0  # exact recency all the way
    if viewless:
        for o in ("values", "items", "eq_dict", "eq_cache", "ne_dict", "ne_keys", "popitem", "setdefault", "contains", "clear", "nested"):
            w[o] = 0
    names = sorted(w)
    ops = []
    for _ in range(nops):
        o = rng.choices(names, [w[n] for n in names])[0]
        ops.append([o, rng.randrange(nkeys), rng.randrange(1000), rng.randrange(1 << 16)])
    return {"cap": cap, "nkeys": nkeys, "keys": "text" if index % 8 == 6 else ("int" if index % 4 != 1 else "bigint") if index % 4 else "mixed",
            "ops": ops, "thread_hops": index % 5 == 2}


def shrinkable(case):
    def rebuild(ops):
        c = dict(case)
        c["ops"] = ops
        return c
    return list(case["ops"]), rebuild


def describe(case):
    if case.get("special"):
        return dict(case)
    return {"cap": case["cap"], "nkeys": case["nkeys"], "keys": case["keys"],
            "ops": [f"{o[0]}({o[1]})" for o in case["ops"]][:40]}


def view_budget(n):
    return 2000 + 200 * (n + 1) ** 2


class Model:
    def __init__(self, cap):
        self.cap = cap
        self.order = []   # most recently used first
        self.val = {}

    def touch(self, k):
        self.order.remove(k)
        self.order.insert(0, k)

    def store(self, k, v):
        evicted = None
        if k in self.val:
            self.val[k] = v
            self.touch(k)
        else:
            if len(self.order) >= self.cap:
                evicted = self.order.pop()
                del self.val[evicted]
            self.order.insert(0, k)
            self.val[k] = v
        return evicted

    def delete(self, k):
        self.order.remove(k)
        del self.val[k]


_HOP = [False]


def _guard(desc, n, fn):
    try:
        with instr.budget(view_budget(n)):
            if _HOP[0]:
                # this operation is made by a short-lived thread of its own (strictly one after the other: a history spread over
                # the threads of a pool of handlers)
                import threading
                box = []

                def run():
                    try:
                        box.append(outcome(fn))
                    except BaseException as e:      # noqa: B036 - re-raised in the caller
                        box.append(e)
                t = threading.Thread(target=run, name="vf:hop")
                t.start()
                t.join()
                if isinstance(box[0], BaseException):
                    raise box[0]
                return box[0]
            return outcome(fn)
    except instr.StepBudgetExceeded:
        raise Violation("view-does-not-end",
                        f"{desc} on a cache with {n} entries exceeded {view_budget(n)} repository statements "
                        f"(does not terminate)", {"entries": n})


def internal_walk(c, m, res):
    """Best effort: dict and recency list describe the same key set / values. Skipped when fields are renamed."""
    try:
        d = c.cache
        lst = c.list
        nodes = []
        node = lst.head
        while node is not None and len(nodes) <= len(m.order) + 1:
            nodes.append(node)
            node = node.next_node
        pairs = [n.data for n in nodes]
    except AttributeError:
        res.count("internal_walk_skipped")
        return
    res.count("internal_walks")
    if [p[0] for p in pairs] != m.order or any(m.val[p[0]] is not p[1] and m.val[p[0]] != p[1] for p in pairs):
        raise Violation("internal-disagreement", "recency list content differs from the model", {"list": repr(pairs)[:300]})
    if set(d.keys()) != set(m.order) or len(d) != len(m.order):
        raise Violation("internal-disagreement", "dict keys differ from the keys in the recency list",
                        {"dict": repr(list(d))[:200], "list": repr(m.order)[:200]})
    for k, node in d.items():
        if node.data[0] != k:
            raise Violation("internal-disagreement", f"dict entry {k!r} points to the node of {node.data[0]!r}", {})


def observe(c, m, desc, res, adopt=None, touched=None):
    """Compares the externally visible state; adopt in (None, 'front', 'any')."""
    n = len(m.order)
    got = _guard(f"list(cache) after {desc}", n, lambda: list(c))
    if got[0] != "ok":
        raise Violation("iteration-raised", f"list(cache) after {desc} raised {got[1]}", {})
    order = got[1]
    ln = len(c)
    if ln > m.cap or len(order) > m.cap:
        raise Violation("len-exceeds-max", f"after {desc}: cache holds {max(ln, len(order))} entries, max_size={m.cap}", {})
    if order != m.order:
        ok = False
        if adopt == "front" and touched in m.val:
            alt = [touched] + [k for k in m.order if k != touched]
            ok = order == alt
        elif adopt == "any":
            ok = len(order) == len(m.order) and sorted(map(repr, order)) == sorted(map(repr, m.order)) \
                and set(order) == set(m.order)
        if not ok:
            missing = [k for k in m.order if k not in order]
            surplus = [k for k in order if k not in m.val]
            mech = "wrong-victim" if (missing or surplus) and desc.startswith("store") else "order-mismatch"
            if missing and not desc.startswith("store"):
                mech = "content-mismatch"
            raise Violation(mech, f"after {desc}: list(cache)={order!r}, reference (MRU first)={m.order!r}",
                            {"missing": repr(missing), "surplus": repr(surplus)})
        m.order = list(order)
        res.count("orders_adopted")
    if ln != len(m.order):
        raise Violation("len-mismatch", f"after {desc}: len(cache)={ln}, reference has {len(m.order)}", {})
    internal_walk(c, m, res)



def run_special(case, res, cls, lfu):
    """Two fixed scenarios outside the random histories."""
    what = case["special"]
    if what == "nan_key":
        # a key that is not equal to itself (NaN) behaves in a dict by identity; the cache is a mapping like dict
        nan = float("nan")
        c, d = cls(3), {}
        steps = [("set", nan, "n1"), ("set", 1, "one"), ("get", nan), ("in", nan), ("set", nan, "n2"), ("get", nan), ("set", 2, "two"),
                 ("items",), ("del", nan), ("in", nan), ("get", 1)]
        for st in steps:
            if st[0] == "set":
                g, w = outcome(lambda: c.__setitem__(st[1], st[2])), outcome(lambda: d.__setitem__(st[1], st[2]))
            elif st[0] == "get":
                g, w = outcome(lambda: c[st[1]]), outcome(lambda: d[st[1]])
            elif st[0] == "in":
                g, w = outcome(lambda: st[1] in c), outcome(lambda: st[1] in d)
            elif st[0] == "del":
                g, w = outcome(lambda: c.__delitem__(st[1])), outcome(lambda: d.__delitem__(st[1]))
            else:
                g, w = outcome(lambda: sorted(map(repr, c.items()))), outcome(lambda: sorted(map(repr, d.items())))
            res.evaluations += 1
            if g != w:
                raise Violation("lookup-value", f"NaN used as a key (one object): step {st[:2]} -> {g}, a dict gives {w}", {})
        res.count("nan_key_scenarios")
        return
    # many_ties: thousands of entries with the same use count, then a use of the oldest one
    n = case["n"]
    c = cls(n)
    for i in range(n):
        c[i] = i
    if lfu:
        # whichever end of the frequency list a key with a fresh count sits at, one of these two lookups has to pass all the
        # other entries: both keys end up behind every key that was used once
        for probe in (n - 1, n // 2):
            with instr.budget(40 * n + 20000):
                try:
                    v = c[probe]
                except instr.StepBudgetExceeded:
                    raise Violation("operation-does-not-end", f"lookup in a cache of {n} entries with equal use counts exceeded its statement budget", {})
            order = list(c)
            res.evaluations += 1
            if v != probe or len(order) != n or not (set(order[-2:]) >= {probe}) or order.index(probe) < n - 2:
                raise Violation("iteration-order", f"{n} keys used once, key {probe} looked up: it is listed at position {order.index(probe)} of {n} "
                                "(iteration must be in non-decreasing use count)", {})
        for probe in (n - 1, n // 2):
            del c[probe]
            c[probe] = probe        # back to use count 1 (a new entry)
    with instr.budget(40 * n + 20000):
        try:
            v = c[0]
        except instr.StepBudgetExceeded:
            raise Violation("operation-does-not-end", f"lookup in a cache of {n} entries with equal use counts exceeded its statement budget", {})
    order = list(c)
    res.evaluations += 3
    if v != 0 or len(order) != n or set(order) != set(range(n)):
        raise Violation("content-mismatch", f"cache of {n} entries after one lookup: value {v}, {len(order)} keys listed", {})
    if lfu:
        if order[-1] != 0:
            raise Violation("iteration-order", f"{n} keys used once and key 0 used twice: key 0 is listed at position {order.index(0)} of "
                            f"{n} (iteration must be in non-decreasing use count)", {})
        c[n] = n                # evicts a key used once
        gone = set(range(n + 1)) - set(c)
        if len(gone) != 1 or 0 in gone or n in gone:
            raise Violation("wrong-victim", f"storing a new key into the full cache of {n} removed {sorted(gone)[:5]} (key 0 was used twice, "
                            "all others once)", {})
    else:
        if order[0] != 0:
            raise Violation("order-mismatch", f"{n} keys stored, key 0 looked up: most recently used first gives 0 first, got {order[:3]}", {})
        c[n] = n
        gone = set(range(n + 1)) - set(c)
        if gone != {1}:
            raise Violation("wrong-victim", f"storing a new key into the full cache of {n} removed {sorted(gone)[:5]}, least recently used is 1", {})
    res.count("many_entries_scenarios")
    res.seen(("special", what, n))


def fork_check(obj, expect_list, probe, want_probe, what):
    """The history goes on in a forked child for a moment: the child sees the object as the parent left it (same listing,
    same answer to one lookup). Returns None or a description of what the child saw."""
    import os
    r, w = os.pipe()
    pid = os.fork()
    if pid == 0:
        msg = b""
        try:
            os.close(r)
            got = (outcome(lambda: list(obj)), outcome(probe))
            if got != (("ok", expect_list), want_probe):
                msg = repr(got).encode()[:600]
        except BaseException as e:
            msg = ("child raised " + repr(e)).encode()[:600]
        finally:
            try:
                os.write(w, msg)
            finally:
                os._exit(0)
    os.close(w)
    data = b""
    while True:
        chunk = os.read(r, 4096)
        if not chunk:
            break
        data += chunk
    os.close(r)
    os.waitpid(pid, 0)
    if data:
        return f"{what}: a forked child sees (listing, lookup) -> {data.decode(errors='replace')}; the parent has {expect_list!r} / {want_probe}"
    return None


def run_case(case, res):
    from windpyutils.structures.caches import LRUCache
    if case.get("special"):
        return run_special(case, res, LRUCache, False)
    cap = case["cap"]
    keys = keyspace(case["keys"], case["nkeys"])
    # a second, independent cache lives next to the one under test (state shared between instances would show)
    comp = LRUCache(2)
    comp["companion-a"] = "x"
    comp["companion-b"] = "y"
    c = LRUCache(cap)
    m = Model(cap)
    quiet = bool(case.get("quiet"))
    for step, (op, ki, v, aux) in enumerate(case["ops"]):
        _HOP[0] = bool(case.get("thread_hops")) and step % 2 == 1       # every second operation by a thread of its own
        k = common.fresh(keys[ki % len(keys)])     # an equal key, not the identical object
        n = len(m.order)
        desc = f"{op}({k!r})"
        adopt, touched = None, None
        if op == "set":
            desc = f"store {k!r}"
            if aux % 9 == 5:
                v = [None, 0, "", False, (), 0.0][step % 6]     # None and falsy objects are values like any other
            full_new = k not in m.val and n >= cap
            got = _guard(desc, n, lambda: c.__setitem__(k, v))
            if got[0] != "ok":
                raise Violation("operation-raised", f"{desc} raised {got[1]}", {})
            ev = m.store(k, v)
            if full_new:
                res.count("evictions")
                desc = f"store new key {k!r} into full cache (LRU {ev!r})"
        elif op == "getitem":
            got = _guard(desc, n, lambda: c[k])
            want = ("ok", m.val[k]) if k in m.val else ("exc", "KeyError")
            if got != want:
                raise Violation("lookup-value", f"c[{k!r}] -> {got}, expected {want}", {})
            if k in m.val:
                m.touch(k)
                res.count("hits")
        elif op == "get":
            got = _guard(desc, n, lambda: c.get(k, "dflt"))
            want = ("ok", m.val.get(k, "dflt"))
            if got != want:
                raise Violation("lookup-value", f"c.get({k!r}) -> {got}, expected {want}", {})
            if k in m.val:
                m.touch(k)
        elif op == "del":
            got = _guard(desc, n, lambda: c.__delitem__(k))
            want = ("ok", None) if k in m.val else ("exc", "KeyError")
            if got != want:
                raise Violation("exception-mismatch", f"del c[{k!r}] -> {got}, expected {want}", {})
            if k in m.val:
                m.delete(k)
        elif op == "contains":
            got = _guard(desc, n, lambda: k in c)
            if got != ("ok", k in m.val):
                raise Violation("membership", f"{k!r} in c -> {got}, expected {k in m.val}", {})
            adopt, touched = "front", k
        elif op == "len":
            pass
        elif op == "list":
            pass
        elif op == "keys":
            got = _guard("keys()", n, lambda: list(c.keys()))
            if got != ("ok", m.order):
                raise Violation("view-content", f"list(keys()) -> {got}, reference {m.order}", {})
        elif op in ("values", "items"):
            got = _guard(f"{op}()", n, lambda: list(getattr(c, op)()))
            if got[0] != "ok":
                raise Violation("operation-raised", f"{op}() raised {got[1]}", {})
            if op == "values":
                okv = sorted(map(repr, got[1])) == sorted(map(repr, m.val.values()))
            else:
                okv = len(got[1]) == len(m.val) and all(isinstance(p, tuple) and len(p) == 2 for p in got[1]) and \
                    {repr(p[0]): p[1] for p in got[1]} == {repr(kk): vv for kk, vv in m.val.items()}
            if not okv:
                raise Violation("view-content", f"{op}() -> {got[1]!r} but the content is {m.val!r}", {})
            res.count("views_completed")
            adopt = "any"
        elif op == "nested":
            # two interleaved iterations over views of the same cache (all pairs): read-only use, must terminate and list
            # every pair of present keys once
            def all_pairs():
                out = []
                for a, va in (c.items() if aux % 2 else ((kk, c[kk]) for kk in c.keys())):
                    for b2 in (c.values() if aux % 3 else c.keys()):
                        out.append((a, va))
                        if len(out) > (n + 1) ** 2 + 5:
                            return out
                return out
            got = _guard("nested iteration over items()/values()", n + 1, all_pairs)
            if got[0] != "ok" or len(got[1]) != n * n or sorted({repr(p[0]) for p in got[1]}) != sorted(map(repr, m.val)):
                raise Violation("view-content", f"nested iteration over the views of a cache with {n} entries produced "
                                f"{len(got[1]) if got[0] == 'ok' else got} pairs (expected {n * n}, every key {n} times)", {})
            res.count("views_completed")
            adopt = "any"
        elif op == "pop":
            got = _guard(desc, n, lambda: c.pop(k, "dflt") if aux % 2 else c.pop(k))
            if k in m.val:
                want = ("ok", m.val[k])
            else:
                want = ("ok", "dflt") if aux % 2 else ("exc", "KeyError")
            if got != want:
                raise Violation("lookup-value", f"c.pop({k!r}) -> {got}, expected {want}", {})
            if k in m.val:
                m.delete(k)
        elif op == "popitem":
            got = _guard("popitem()", n, lambda: c.popitem())
            if n == 0:
                if got != ("exc", "KeyError"):
                    raise Violation("exception-mismatch", f"popitem() on empty cache -> {got}", {})
            else:
                if got[0] != "ok" or not isinstance(got[1], tuple) or len(got[1]) != 2 or got[1][0] not in m.val \
                        or m.val[got[1][0]] != got[1][1]:
                    raise Violation("view-content", f"popitem() -> {got}, not a (key, value) pair of {m.val!r}", {})
                m.delete(got[1][0])
                adopt = "any"
        elif op == "fork_check" and n <= 40:
            kk = next(iter(m.val), k)
            order_now = _guard("list(cache)", n, lambda: list(c))
            bad = fork_check(c, order_now[1], (lambda: kk in c), ("ok", kk in m.val), "LRUCache")
            if bad:
                raise Violation("fork-view", bad, {})
            res.count("histories_looked_at_from_a_forked_child")
            adopt = "any"
        elif op == "clone":
            # the caller goes on with a copy of the cache (copy.deepcopy / a pickle round trip, e.g. a cache handed to
            # another process): the copy is a cache with the same content, recency / use counts included
            if n > 40:
                continue
            import copy
            import pickle
            if aux % 4 >= 2:
                # a shallow copy (it shares the storage with the original) and one of the two handles is dropped and collected:
                # the survivor is the cache it was
                import gc
                got = _guard("copy.copy of the cache", 4 * n + 10, lambda: copy.copy(c))
                if got[0] != "ok" or type(got[1]) is not type(c):
                    raise Violation("operation-raised", f"copy.copy of a cache with {n} entries -> {got}", {})
                if aux % 4 == 2:
                    c = got[1]
                    desc = "a copy.copy of the cache taken, the original dropped and collected; continuing with the copy"
                else:
                    desc = "a copy.copy of the cache taken, dropped and collected; continuing with the original"
                got = None
                gc.collect()
                res.count("shallow_copies_with_one_handle_dropped")
            else:
                how = "deepcopy" if aux % 2 else "pickle"
                got = _guard(f"{how} of the cache", 4 * n + 10, (lambda: copy.deepcopy(c)) if aux % 2 else (lambda: pickle.loads(pickle.dumps(c))))
                if got[0] != "ok" or type(got[1]) is not type(c):
                    raise Violation("operation-raised", f"{how} of a cache with {n} entries -> {got}", {})
                c = got[1]
                desc = f"continuing with a {how} of the cache"
                res.count("clones_continued_with")
        elif op == "clear":
            got = _guard("clear()", n, lambda: c.clear())
            if got != ("ok", None):
                raise Violation("operation-raised", f"clear() -> {got}", {})
            m.order, m.val = [], {}
        elif op == "update":
            npairs = 1 + aux % 3 if aux % 5 else cap + 1 + aux % 4      # sometimes more pairs than the capacity
            ks = [keys[(ki + j * 7 + aux) % len(keys)] for j in range(npairs)]
            if aux % 5 == 0 and len(ks) > 2:
                ks[-1] = ks[-2]                                         # a repeated key among the last stores
            pairs = [(kk, v + j) for j, kk in enumerate(ks)]
            desc = f"update({pairs!r})"
            kw = {}
            if aux % 2 and len({repr(p[0]) for p in pairs}) == len(pairs):
                arg = dict(pairs)
            else:
                arg = pairs
            if aux % 7 == 3 and isinstance(keys[0], int) is False:
                pass
            got = _guard(desc, n + len(pairs), lambda: c.update(arg, **kw))
            if got != ("ok", None):
                raise Violation("operation-raised", f"{desc} -> {got}", {})
            for kk, vv in pairs:
                m.store(kk, vv)
        elif op == "setdefault":
            got = _guard(desc, n, lambda: c.setdefault(k, v))
            want = ("ok", m.val[k]) if k in m.val else ("ok", v)
            if got != want:
                raise Violation("lookup-value", f"c.setdefault({k!r}, {v}) -> {got}, expected {want}", {})
            if k in m.val:
                adopt, touched = "front", k   # a lookup of k: either refreshed or not
            else:
                m.store(k, v)
        elif op in ("eq_dict", "ne_dict", "eq_cache", "ne_keys"):
            if op == "ne_keys" and not m.order:
                continue
            if op == "ne_keys":
                # same size, different key set: the key that only the cache has holds None there (a stored None and a
                # missing key are different things)
                kk = m.order[aux % len(m.order)]
                got = _guard(f"store {kk!r} = None", n, lambda: c.__setitem__(kk, None))
                if got[0] != "ok":
                    raise Violation("operation-raised", f"store of None under {kk!r} raised {got[1]}", {})
                m.store(kk, None)
                other = {k2: v2 for k2, v2 in m.val.items() if k2 is not kk}
                other[("only", "in", "the", "other", "mapping")] = 5
                want = False
                ne = _guard("!= (ne_keys)", 2 * n, lambda: c != other)
                if ne != ("ok", True):
                    raise Violation("view-content", f"cache != dict with content {m.val!r} vs {other!r} -> {ne}, expected True", {})
            elif op == "eq_dict":
                other, want = dict(m.val), True
            elif op == "ne_dict":
                other = dict(m.val)
                other[keys[ki % len(keys)]] = "different"
                want = False
            else:
                other = LRUCache(max(cap, 1))
                for kk in reversed(m.order):
                    other[kk] = m.val[kk]
                want = True
            got = _guard(f"== ({op})", 2 * n, lambda: c == other)
            if got != ("ok", want):
                raise Violation("view-content", f"cache == {op[3:]} with content {m.val!r} vs {dict(other.items()) if op != 'eq_cache' else 'same content'} -> {got}, expected {want}", {})
            res.count("views_completed")
            adopt = "any"
        res.evaluations += 1
        res.count("op_" + op)
        if not quiet or adopt is not None:
            observe(c, m, desc, res, adopt, touched)
        else:
            res.count("quiet_steps_not_followed_by_a_read")
        if len(m.order) >= 2:
            res.seen((cap, tuple(map(repr, m.order)), tuple(repr(m.val[k2]) for k2 in m.order)))
    if quiet:
        observe(c, m, f"the whole quiet history of {len(case['ops'])} operations", res)
        res.count("quiet_histories")
    g = outcome(lambda: (sorted(comp), len(comp), comp["companion-a"], comp["companion-b"]))
    if g != ("ok", (["companion-a", "companion-b"], 2, "x", "y")):
        raise Violation("other-instance-disturbed", f"a second cache that holds companion-a/companion-b and was not touched during the "
                        f"history answers (keys, len, values) -> {g}", {})


def plan(tier, seed):
    return seq.std_plan(__import__(MOD, fromlist=["x"]), tier, seed)


def run_shard(spec):
    instr.install(["windpyutils.structures.caches", "windpyutils.structures.lists"])
    return seq.std_run_shard(__import__(MOD, fromlist=["x"]), spec)


def replay(doc):
    instr.install(["windpyutils.structures.caches", "windpyutils.structures.lists"])
    return seq.std_replay(__import__(MOD, fromlist=["x"]), doc)


RULE += ' Also (wave 9): shallow copies of the cache with one of the two handles dropped and collected; every fourth shard with DEBUG logging.'


# ---- quiet histories (wave 12) ------------------------------------------------------------------------------------------
# Case indices above BASE_CASES repeat the ordinary generator (with its own random draws) but are observed only at the end of
# the history: the per-step observation reads the object through its public API, and a read can repair or overwrite state
# that one operation left behind for the next (a deferred update, a remembered position) before the next operation meets it.
_gen_case_ordinary = gen_case


def gen_case(rng, tier, index):
    if index >= BASE_CASES[tier]:
        c = _gen_case_ordinary(rng, tier, index - BASE_CASES[tier] + 1)
        c["quiet"] = True
        return c
    return _gen_case_ordinary(rng, tier, index)


RULE += (' Also (wave 12): quiet histories (case indices above BASE_CASES) whose steps are not followed by a read through the '
         'public API; the full comparison comes once, at the end of the history.')
