"""
C20 - TmpPool and FilePool leave nothing behind.

Monitor shape: filesystem / descriptor leak monitor (listing of a private directory, existence of
every path ever returned, /proc/self/fd scan, handle.closed) evaluated after every step of a
generated history, combined with fault enumeration: every history is re-run once per position j
with the with-body raising after step j, and left by return / break; multi-process pools with
forked children that create files before and after the parent's flush().
"""
import multiprocessing
import os
import shutil
import sys
import time

from vf import common, instr, seq
from vf.common import Violation
from vf.seq import outcome

PROP = "C20"
LEVEL = "fault_enumeration"
RULE = ("seeded histories of 1-14 steps over create / remove / flush / remove-of-an-externally-deleted-file / len+index "
        "reads / remove() whose os.remove fails once with PermissionError on a TmpPool bound to a private directory (after a normal exit the same pool object is entered a second time); each history is executed len+3 times: normal exit, "
        "exception raised after step j for EVERY j in 0..len, return and break out of the body (fault enumeration "
        "over all body positions). Multi-process pools: 1-3 forked children creating files before and after the "
        "parent's flush(), exiting normally or by exception, parent leaving normally or by exception, half of the cases with a second round on the same pool object; race cases: children create files continuously WHILE the parent flushes repeatedly with every statement of flush() stretched by an injected delay. FilePool: 0-6 "
        "existing files (with duplicates, sometimes /dev/null among them) in modes r, rb, w, a, r+, ab, wb, bodies that also close a handle themselves, body exits enumerated the same way. "
        "distinct_nontrivial = distinct (kind, history, exit route) executions with >=2 steps.")
ASSUMPTIONS = [
    "remove() is only called with paths the pool returned and still lists (other arguments are outside the statement)",
    "children of a multi_proc pool are joined inside the with-body (files created after the context ended are the "
    "caller's business)",
    "FilePool is given paths of existing files (or modes that create them); a failing open() is outside the statement",
]
BASE_CASES = {"quick": 520, "thorough": 16000}
NCASES = {"quick": 1000, "thorough": 24000}
NSHARDS = 16
SHARD_TIMEOUT = {"quick": 300, "thorough": 3600}
MOD = "vf.checks.c20"
_SCRATCH = None
AUDIT = {"open": 0, "os.remove": 0, "tempfile.mkstemp": 0}
_audit_on = [False]


class Boom(Exception):
    pass


def _audit(event, args):
    if _audit_on[0] and event in AUDIT:
        AUDIT[event] += 1


def gen_case(rng, tier, index):
    k = index % 10
    if k < 5:
        steps = []
        for _ in range(rng.randint(1, 14)):
            steps.append([rng.choice(["create", "create", "create", "remove", "flush", "remove_deleted", "ext_delete",
                                      "read", "remove_fails"]), rng.randrange(1 << 16)])
        # the directory reached through a symbolic link; files created before the context is entered; a second,
        # independent pool alive at the same time
        return {"kind": "tmp-single", "ops": steps, "via_symlink": rng.random() < 0.25,
                "pre_create": rng.choice([0, 0, 0, 1, 2]), "companion": rng.random() < 0.3, "relative_dir": rng.random() < 0.2,
                # (derived from the index, no further draws: earlier histories stay what they were) the second pool lives in the SAME
                # directory; a child process forked inside the context is terminated with SIGTERM
                "companion_same_dir": (index // 10) % 2 == 0, "child_terminated": (index // 10) % 3 == 1}
    if k < 7:
        children = []
        for _ in range(rng.randint(1, 3)):
            children.append({"before": rng.randint(0, 3), "after": rng.randint(0, 3), "raises": rng.random() < 0.3,
                             "removes_own": rng.random() < 0.3})
        return {"kind": "tmp-multi", "ops": children, "parent_before": rng.randint(0, 2), "parent_after": rng.randint(0, 2),
                "flush_mid": rng.random() < 0.8, "parent_raises": rng.random() < 0.4,
                "fork_after_flush": rng.random() < 0.3, "two_rounds": rng.random() < 0.5,
                "pre_create": rng.choice([0, 0, 1, 2])}
    if k == 7 and (index // 10) % 3 == 2:
        # the pool object is built in one process and used (entered, filled, left) in a forked child
        return {"kind": "tmp-forked-use", "ops": [{"creates": rng.randint(1, 4), "raises": rng.random() < 0.4,
                                                   "multi": rng.random() < 0.4, "parent_creates_first": rng.random() < 0.3}]}
    if k == 7:
        return {"kind": "tmp-race", "ops": [{"creates": rng.randint(20, 60), "pace": rng.choice([0, 0.0005, 0.002])}
                                            for _ in range(rng.randint(1, 3))],
                "line_delay": rng.choice([0.0005, 0.002, 0.005]), "parent_raises": rng.random() < 0.3,
                "mode": "remove" if (index // 10) % 2 else "flush"}
    nfiles = rng.randint(0, 6)
    files = [rng.randrange(5) for _ in range(nfiles)]
    return {"kind": "filepool", "files": files, "mode": rng.choice(["r", "rb", "w", "a", "r+", "ab", "wb"]),
            "devnull": rng.random() < 0.3, "odd_spellings": rng.random() < 0.3, "failed_first_enter": rng.random() < 0.3, "files_form": rng.choice(["list", "list", "tuple", "gen", "iter", "map", "dict_keys"]),
            "ops": [[rng.choice(["get", "len", "iter", "write_or_read", "write_or_read", "close_one"]), rng.randrange(1 << 16)]
                    for _ in range(rng.randint(0, 6))]}


def shrinkable(case):
    def rebuild(ops):
        c = dict(case)
        c["ops"] = ops
        return c
    return list(case["ops"]), rebuild


def describe(case):
    return case


def scratch():
    global _SCRATCH
    if _SCRATCH is None:
        _SCRATCH = common.scratch_dir("vf-c20-")
    return _SCRATCH


def fresh_dir(name):
    d = os.path.join(scratch(), name)
    shutil.rmtree(d, ignore_errors=True)
    os.makedirs(d)
    return d


def fds_on(paths):
    """Descriptors of this process that point to one of the given paths."""
    hit = []
    wanted = {os.path.realpath(p) for p in paths}
    for fd in os.listdir("/proc/self/fd"):
        try:
            tgt = os.readlink(f"/proc/self/fd/{fd}")
        except OSError:
            continue
        if tgt in wanted or tgt.replace(" (deleted)", "") in wanted:
            hit.append((int(fd), tgt))
    return hit


# --------------------------------------------------------------------------- TmpPool, single process

def run_tmp_single(case, res):
    steps = case["ops"]
    routes = ["normal", "return", "break"] + [f"raise@{j}" for j in range(len(steps) + 1)]
    for route in routes:
        _tmp_single_once(case, steps, route, res)
        res.count("tmp_single_executions")
        res.count("tmp_fault_positions" if route.startswith("raise") else "tmp_clean_exits")
        if len(steps) >= 2:
            res.seen(("tmp", tuple(s[0] for s in steps), route))


def _tmp_single_once(case, steps, route, res):
    from windpyutils.files import TmpPool
    d = fresh_dir("tmp")
    pool_dir = d
    if case.get("via_symlink"):
        # the pool is given a path that leads to its directory through a symbolic link; paths are compared as the
        # pool returned them
        pool_dir = os.path.join(scratch(), "tmp-link")
        if os.path.lexists(pool_dir):
            os.remove(pool_dir)
        os.symlink(d, pool_dir)
        res.count("tmp_single_runs_through_a_symlinked_directory")
    ever = []
    state = {"listed": []}
    comp = {}

    def fail(mech, msg):
        raise Violation(mech, f"TmpPool history {[s[0] for s in steps]} left by {route}: {msg}",
                        {"dir": sorted(os.listdir(d)), "ever_returned": len(ever)})

    def others():
        """Files of the second pool when it shares the directory."""
        return set(comp["files"]) if comp and comp["dir"] == d else set()

    def terminate_a_child(pool, when):
        # a helper process forked inside the context (it inherits everything) is stopped with SIGTERM, as Process.terminate() does:
        # the pool of the parent is what it was
        import multiprocessing
        import time
        hp = multiprocessing.get_context("fork").Process(target=time.sleep, args=(20,))
        hp.start()
        time.sleep(0.03)
        hp.terminate()
        hp.join(10)
        res.count("children_forked_inside_the_context_and_terminated")
        observe(pool, f"a child process forked {when} was terminated (SIGTERM)")

    def observe(pool, desc, final=False):
        res.evaluations += 1
        if case.get("quiet") and not final:
            # the directory is looked at, the pool is not asked anything
            res.count("quiet_steps_not_followed_by_a_read")
            on_disk = sorted(os.path.join(pool_dir, f) for f in os.listdir(d) if os.path.join(d, f) not in others())
            expect_disk = sorted(p for p in state["listed"] if p not in state.get("ext_deleted", set()))
            if on_disk != expect_disk:
                fail("files-vs-listing", f"after {desc}: directory holds {on_disk}, created-and-not-removed are {expect_disk}")
            return
        listed = state["listed"]
        on_disk = sorted(os.path.join(pool_dir, f) for f in os.listdir(d) if os.path.join(d, f) not in others())
        if comp:
            cp, cfiles, cd = comp["pool"], comp["files"], comp["dir"]
            if [cp[i] for i in range(len(cp))] != cfiles or \
                    sorted(os.path.join(cd, f) for f in os.listdir(cd) if cd != d or os.path.join(cd, f) in cfiles) != sorted(cfiles):
                fail("other-pool-disturbed", f"after {desc}: a second, independent pool lists "
                     f"{[cp[i] for i in range(len(cp))]} and its directory holds {sorted(os.listdir(cd))}, it created {cfiles}")
        if len(pool) != len(listed) or [pool[i] for i in range(len(pool))] != listed:
            fail("pool-listing", f"after {desc}: pool lists {[pool[i] for i in range(len(pool))]}, expected {listed}")
        expect_disk = sorted(p for p in listed if p not in state.get("ext_deleted", set()))
        if on_disk != expect_disk:
            fail("files-vs-listing", f"after {desc}: directory holds {on_disk}, created-and-not-removed are {expect_disk}")

    def body(pool):
        try:
            return body2(pool)
        finally:
            if case.get("relative_dir"):
                os.chdir("/")       # the body ends somewhere else than it started; what was created is removed all the same

    def body2(pool):
        state["ext_deleted"] = set()
        stop_at = int(route.split("@")[1]) if route.startswith("raise") else None
        for j, (op, a) in enumerate(steps + [["end", 0]]):
            if stop_at == j:
                raise Boom(f"body raises after step {j}")
            if op == "end":
                break
            listed = state["listed"]
            if op == "create":
                p = pool.create()
                if p in ever or not os.path.isfile(p) or os.path.dirname(os.path.realpath(p)) != os.path.realpath(d):
                    fail("create", f"create() returned {p!r}: not a distinct existing file of the pool directory")
                ever.append(p)
                listed.append(p)
            elif op == "remove_fails":
                # the operating system refuses the deletion once (EPERM / EBUSY): remove() raises, the file is still
                # there and must still be the pool's business (listed, removed at the latest when the context is left)
                if not listed:
                    continue
                p = listed[a % len(listed)]
                if not os.path.exists(p):
                    continue            # deleted behind the pool's back earlier in this history: nothing to refuse
                real_remove = os.remove
                hit = []

                def failing(path, *aa, **kk):
                    if not hit and os.path.realpath(path) == os.path.realpath(p):
                        hit.append(1)
                        raise PermissionError(13, "injected: operation not permitted", path)
                    return real_remove(path, *aa, **kk)
                os.remove = failing
                try:
                    try:
                        pool.remove(p)
                        if hit:
                            fail("remove", "remove() swallowed the PermissionError of os.remove")
                    except PermissionError:
                        pass
                finally:
                    os.remove = real_remove
                if hit and not os.path.exists(p):
                    fail("remove", "file vanished although its deletion failed")
                if not hit:
                    listed.remove(p)
                res.count("removes_with_injected_os_error")
            elif op in ("remove", "remove_deleted"):
                if not listed:
                    continue
                p = listed[a % len(listed)]
                if op == "remove_deleted" and os.path.exists(p):
                    os.remove(p)
                pool.remove(p)
                listed.remove(p)
                state["ext_deleted"].discard(p)
                if os.path.exists(p):
                    fail("remove", f"remove({p!r}) left the file on disk")
            elif op == "ext_delete":
                if not listed:
                    continue
                p = listed[a % len(listed)]
                if os.path.exists(p):
                    os.remove(p)
                state["ext_deleted"].add(p)
            elif op == "flush":
                pool.flush()
                state["listed"] = []
                state["ext_deleted"] = set()
                left = [p for p in ever if os.path.exists(p)]
                rest = [f for f in os.listdir(d) if os.path.join(d, f) not in others()]
                if left or rest:
                    fail("flush-leaves-files", f"after flush() {left or rest} still exist")
            elif op == "read":
                if a % 3 == 0:
                    # a copy of the pool object (copy.copy / pickle round trip, as when the pool is passed to a worker) is made
                    # and thrown away: the files stay the pool's business
                    import copy
                    import gc
                    import pickle
                    try:
                        clone = copy.copy(pool) if a % 2 else pickle.loads(pickle.dumps(pool))
                    except Exception:
                        clone = None
                    del clone
                    gc.collect()
                    res.count("pool_copies_made_and_dropped")
                elif a % 3 == 1 and listed and not case.get("relative_dir"):
                    # the caller publishes content on a pool path atomically: it writes a file outside the pool directory and
                    # moves it over the path (another inode under the same name); the path stays the pool's file
                    tgt = listed[a % len(listed)]
                    if tgt not in state.get("ext_deleted", set()) and os.path.exists(tgt):
                        side = os.path.join(scratch(), f"published-{len(ever)}-{j}")
                        with open(side, "w") as f_:
                            f_.write("published content")
                        os.replace(side, tgt)
                        res.count("pool_paths_replaced_atomically_by_the_caller")
            observe(pool, f"step {j} ({op})", final=(op == "end"))
            if route == "break" and j == len(steps) - 1:
                break
        if route == "return":
            return "returned"

    def run():
        if case.get("companion"):
            cd = d if case.get("companion_same_dir") and not case.get("via_symlink") and not case.get("relative_dir") else fresh_dir("tmp-companion")
            cpool = TmpPool(cd)
            cpool.__enter__()
            comp.update(pool=cpool, dir=cd, files=[cpool.create(), cpool.create()])
            res.count("tmp_single_runs_next_to_a_second_pool")
        try:
            run_main()
        finally:
            if comp:
                cp, cfiles, cd = comp["pool"], comp["files"], comp["dir"]
                comp.clear()
                intact = [cp[i] for i in range(len(cp))] == cfiles and all(os.path.exists(x) for x in cfiles)
                cfiles.append(cp.create())
                cp.__exit__(None, None, None)
                if not intact or [f for f in os.listdir(cd) if cd != d or os.path.join(cd, f) in cfiles]:
                    fail("other-pool-disturbed", f"a second, independent pool: intact after the first one ended: {intact}; "
                         f"left in its directory after its own exit: {os.listdir(cd)}")

    def run_main():
        cwd0 = os.getcwd()
        if case.get("relative_dir"):
            # the pool is given a relative directory; the body changes the current directory later on
            os.chdir(os.path.dirname(pool_dir))
            pool_obj = TmpPool(os.path.basename(pool_dir))
            res.count("tmp_single_runs_with_a_relative_directory")
        else:
            pool_obj = TmpPool(pool_dir)
        try:
            run_main2(pool_obj)
        finally:
            os.chdir(cwd0)

    def run_main2(pool_obj):
        for _ in range(case.get("pre_create", 0)):
            # files created before the context is entered are the pool's files like any other
            p0 = pool_obj.create()
            ever.append(p0)
            state["listed"].append(p0)
            res.count("tmp_files_created_before_enter")
        with pool_obj as pool:
            observe(pool, "enter")
            if case.get("child_terminated") and state["listed"]:
                terminate_a_child(pool, "right after entering the context")
            if route == "break":
                for _ in (0,):
                    body(pool)
                    break
            else:
                body(pool)
                if case.get("child_terminated") and route == "normal" and not case.get("relative_dir"):
                    terminate_a_child(pool, "at the end of the body")
        if route == "normal":
            # the same pool object is entered a second time: it starts empty and cleans up again
            if [f for f in os.listdir(d) if os.path.join(d, f) not in others()]:
                fail("exit-leaves-files", f"after leaving the context the directory holds {os.listdir(d)[:3]}")
            state["listed"] = []
            if case.get("relative_dir"):
                os.chdir(os.path.dirname(pool_dir))     # back where the relative directory means the pool's directory
            with pool_obj as pool:
                observe(pool, "second enter")
                p2 = pool.create()
                ever.append(p2)
                state["listed"].append(p2)
                observe(pool, "create in the second session")

    try:
        run()
        if route.startswith("raise"):
            fail("exception-swallowed", "the exception raised in the body did not propagate")
    except Boom:
        if not route.startswith("raise"):
            raise
    res.evaluations += 1
    left = [p for p in ever if os.path.exists(p)]
    if left or os.listdir(d):
        fail("exit-leaves-files", f"after leaving the context {len(left)} returned path(s) still exist: {left[:3]}, "
             f"directory: {os.listdir(d)[:5]}")


# --------------------------------------------------------------------------- TmpPool, multi process

def _child(pool, spec, conn, go):
    instr.reset_for_child("child")
    try:
        made = []
        for _ in range(spec["before"]):
            made.append(pool.create())
        conn.send(("before", made))
        go.wait(30)
        made2 = []
        for _ in range(spec["after"]):
            made2.append(pool.create())
        if spec["removes_own"] and made2:
            pool.remove(made2[-1])
            conn.send(("after", made2, made2[-1]))
        else:
            conn.send(("after", made2, None))
        if spec["raises"]:
            raise Boom("child raises")
    finally:
        conn.close()


def run_tmp_multi(case, res):
    from windpyutils.files import TmpPool
    d = fresh_dir("tmpmp")
    pool_obj = TmpPool(d, multi_proc=True)
    for rnd in range(2 if case.get("two_rounds") else 1):
        _tmp_multi_round(case, res, d, pool_obj, rnd)
    del pool_obj


def _tmp_multi_round(case, res, d, pool_obj, rnd):
    ctx = multiprocessing.get_context("fork")
    ever = []
    children = case["ops"]

    def fail(mech, msg):
        raise Violation(mech, f"multi_proc TmpPool ({len(children)} children, flush_mid={case['flush_mid']}, "
                        f"fork_after_flush={case['fork_after_flush']}): {msg}", {"dir": sorted(os.listdir(d))[:8]})

    try:
        for _ in range(case.get("pre_create", 0)):
            ever.append(pool_obj.create())      # before the context is entered
            res.count("tmp_files_created_before_enter")
        with pool_obj as pool:
            if len(pool) != len(ever):
                fail("pool-listing", f"{'second use: ' if rnd else ''}on entering the context the pool lists {len(pool)} paths, "
                     f"{len(ever)} were created before")
            for _ in range(case["parent_before"]):
                ever.append(pool.create())
            if case["fork_after_flush"] and case["flush_mid"]:
                pool.flush()
                if os.listdir(d):
                    fail("flush-leaves-files", f"after flush() directory holds {os.listdir(d)}")
            procs = []
            go = ctx.Event()
            for spec in children:
                a, b = ctx.Pipe(duplex=False)
                p = ctx.Process(target=_child, args=(pool, spec, b, go))
                p.start()
                b.close()
                procs.append((p, a, spec))
            for p, a, spec in procs:
                if not a.poll(30):
                    fail("harness-timeout", "child did not report (inconclusive)")
                tag, made = a.recv()
                ever.extend(made)
            res.evaluations += 1
            listing = sorted(os.listdir(d))
            if case["flush_mid"]:
                pool.flush()
                res.count("mid_body_flushes_with_live_children")
                left = [p for p in ever if os.path.exists(p)]
                if left or os.listdir(d):
                    fail("flush-leaves-files", f"after flush() in the parent {len(left)} file(s) created earlier (by "
                         f"parent or children) still exist")
            go.set()
            for p, a, spec in procs:
                if a.poll(30):
                    tag, made, removed = a.recv()
                    ever.extend(made)
                    if removed is not None and os.path.exists(removed):
                        fail("remove", "file removed by a child through the pool still exists")
                p.join(30)
                if p.is_alive():
                    p.kill()
                    fail("harness-timeout", "child did not exit (inconclusive)")
                res.count("children_run")
                if spec["after"]:
                    res.count("children_creating_after_flush" if case["flush_mid"] else "children_creating_late")
            for _ in range(case["parent_after"]):
                ever.append(pool.create())
            alive = [p for p in ever if os.path.exists(p)]
            if sorted(alive) != sorted(os.path.join(d, f) for f in os.listdir(d)):
                fail("files-vs-listing", "directory content differs from the files the pool handed out")
            if len(pool) != len(alive):
                late = case["flush_mid"] and any(c["after"] for c in children)
                fail("child-files-after-flush-lost" if late and len(pool) < len(alive) else "pool-listing",
                     f"pool lists {len(pool)} paths, {len(alive)} created-and-not-removed files exist")
            if case["parent_raises"]:
                raise Boom("parent body raises")
    except Boom:
        pass
    res.evaluations += 1
    left = [p for p in ever if os.path.exists(p)]
    if left or os.listdir(d):
        late = case["flush_mid"] and any(c["after"] for c in children)
        fail("child-files-after-flush-lost" if late and rnd == 0 else "exit-leaves-files",
             f"{'second use of the same pool object: ' if rnd else ''}after leaving the context {len(left)} file(s) remain "
             f"(created by {'children after the parent flush' if case['flush_mid'] else 'the pool'}): {os.listdir(d)[:4]}")
    res.seen(("tmpmp", repr(case), rnd))


def _race_child(pool, spec, conn):
    instr.reset_for_child("child")
    try:
        mine = []
        for j in range(spec["creates"]):
            p = pool.create()
            mine.append(p)
            conn.send(("created", p))
            if spec.get("removes") and j % 3 == 2:
                # the child removes one of its own earlier files through the pool, concurrently with everybody else
                victim = mine.pop(0)
                pool.remove(victim)
                conn.send(("removed", victim))
            if spec["pace"]:
                time.sleep(spec["pace"])
        for victim in spec.get("assigned", []):
            pool.remove(victim)
            conn.send(("removed", victim))
    finally:
        conn.close()


def run_tmp_race(case, res):
    """Children keep creating files WHILE the parent flushes repeatedly; every statement of flush() is stretched by an
    injected delay (sys.monitoring LINE hook) so that creates fall between any two of its steps."""
    from windpyutils.files import TmpPool
    d = fresh_dir("tmprace")
    ctx = multiprocessing.get_context("fork")
    ever = []

    def fail(mech, msg):
        raise Violation(mech, f"multi_proc TmpPool, {len(case['ops'])} children creating during repeated flush(): {msg}",
                        {"dir": sorted(os.listdir(d))[:6]})

    plan = {}
    for rel in range(0, 40):
        for occ in range(1, 600):
            plan[("main", "TmpPool.flush", rel, occ)] = ("sleep", case["line_delay"])
    removed = set()
    mode = case.get("mode", "flush")

    def drain(a):
        while a.poll(0):
            try:
                tag, path = a.recv()
            except EOFError:
                break
            if tag == "created":
                ever.append(path)
            else:
                removed.add(path)
    if mode == "remove":
        # concurrent remove() calls of different processes on different paths; statements of remove() in the parent are
        # stretched, so that a child's remove falls between any two of its steps
        plan = {}
        for rel in range(0, 40):
            for occ in range(1, 200):
                plan[("main", "TmpPool.remove", rel, occ)] = ("sleep", case["line_delay"])
    pool_obj = TmpPool(d, multi_proc=True)
    try:
        with pool_obj as pool:
            procs = []
            parent_files = []
            if mode == "remove":
                parent_files = [pool.create() for _ in range(8 + 4 * len(case["ops"]))]
                ever.extend(parent_files)
            for ci, spec in enumerate(case["ops"]):
                a, b = ctx.Pipe(duplex=False)
                if mode == "remove":
                    spec = dict(spec, removes=True, assigned=parent_files[1 + ci::len(case["ops"]) + 1][:3])
                p = ctx.Process(target=_race_child, args=(pool, spec, b))
                p.start()
                b.close()
                procs.append((p, a))
            instr.start_case(plan=plan, trace=False)
            try:
                flushes = 0
                t_end = time.time() + 30
                if mode == "remove":
                    assigned = {x for ci in range(len(case["ops"])) for x in parent_files[1 + ci::len(case["ops"]) + 1][:3]}
                    for victim in [x for x in parent_files if x not in assigned][::-1][:6]:
                        pool.remove(victim)
                        removed.add(victim)
                        res.count("race_parent_removes")
                while any(p.is_alive() for p, _ in procs) and time.time() < t_end:
                    if mode == "flush":
                        pool.flush()
                        flushes += 1
                    else:
                        time.sleep(0.005)
                    for p, a in procs:
                        drain(a)
            finally:
                fired = len(instr.S.fired)
                instr.stop_case()
            res.count("race_flushes", flushes)
            res.count("race_delays_injected_in_flush", fired)
            for p, a in procs:
                p.join(30)
                if p.is_alive():
                    p.kill()
                    fail("harness-timeout", "child did not exit (inconclusive)")
                drain(a)
            res.count("race_files_created_by_children", len(ever))
            res.count("race_removes_by_children_and_parent", len(removed))
            res.evaluations += 1
            alive = sorted(p for p in ever if os.path.exists(p))
            if mode == "remove":
                want = sorted(p for p in ever if p not in removed)
                if alive != want:
                    fail("concurrent-remove-lost", f"{len(alive)} files exist, created-and-not-removed are {len(want)}: "
                         f"removed but still on disk {[p for p in alive if p in removed][:2]}, vanished {[p for p in want if p not in alive][:2]}")
            on_disk = sorted(os.path.join(d, f) for f in os.listdir(d))
            listed = sorted(pool[i] for i in range(len(pool)))
            if on_disk != alive:
                fail("files-vs-listing", "the directory holds files the pool never handed out")
            if listed != alive and mode == "remove":
                fail("concurrent-remove-lost", f"after concurrent remove() calls the pool lists {len(listed)} paths, "
                     f"{len(alive)} created-and-not-removed files exist; listed but gone: {[p for p in listed if p not in alive][:2]}, "
                     f"existing but unlisted: {[p for p in alive if p not in listed][:2]}")
            if listed != alive:
                fail("created-during-flush-lost", f"after the children finished the pool lists {len(listed)} paths but "
                     f"{len(alive)} created-and-not-removed files exist; unlisted: {[p for p in alive if p not in listed][:3]}")
            pool.flush()
            if os.listdir(d) or len(pool):
                fail("flush-leaves-files", f"after a final flush() {len(os.listdir(d))} file(s) remain")
            ever.append(pool.create())
            if case["parent_raises"]:
                raise Boom("parent body raises")
    except Boom:
        pass
    res.evaluations += 1
    left = [p for p in ever if os.path.exists(p)]
    if left or os.listdir(d):
        fail("exit-leaves-files", f"after leaving the context {len(left)} file(s) remain")
    res.seen(("tmprace", repr(case)))
    del pool_obj


def run_tmp_forked_use(case, res):
    """A pool object built in the parent, entered / filled / left in a forked child (a worker that owns a scratch pool it
    inherited): after the child's context nothing it created is left."""
    from windpyutils.files import TmpPool
    spec = case["ops"][0]
    d = fresh_dir("tmpfork")
    pool = TmpPool(d, multi_proc=spec["multi"])
    kept = []
    if spec["parent_creates_first"] and not spec["multi"]:
        kept.append(pool.create())          # listed in the child's copy of the pool too (what happens to it there is not judged)
    r, w = os.pipe()
    pid = os.fork()
    if pid == 0:
        code = 0
        try:
            os.close(r)
            instr.reset_for_child("child")
            made = []
            try:
                with pool as p:
                    for _ in range(spec["creates"]):
                        made.append(p.create())
                    os.write(w, ("\n".join(made) + "\nEND\n").encode())
                    if spec["raises"]:
                        raise Boom("child body raises")
            except Boom:
                pass
        except BaseException:
            code = 3
        finally:
            os._exit(code)
    os.close(w)
    data = b""
    import select
    t_end = time.time() + 60
    while not data.endswith(b"END\n") and time.time() < t_end:
        # not until end-of-file: a helper process the child started (the pool's manager) may outlive it and hold the pipe
        if select.select([r], [], [], 1.0)[0]:
            chunk = os.read(r, 65536)
            if not chunk:
                break
            data += chunk
    os.close(r)
    t_end = time.time() + 60
    status = None
    while time.time() < t_end:
        got, st = os.waitpid(pid, os.WNOHANG)
        if got:
            status = st
            break
        time.sleep(0.01)
    if status is None:
        os.kill(pid, 9)
        os.waitpid(pid, 0)
        raise Violation("forked-use-failed", f"TmpPool(multi_proc={spec['multi']}) built in the parent and used in a forked child: the child "
                        "did not finish within 60 s", {})
    if data.endswith(b"END\n"):
        data = data[:-4]
    res.evaluations += 1
    res.count("pools_used_in_a_forked_child")
    made = [x for x in data.decode().split("\n") if x]
    if os.waitstatus_to_exitcode(status) != 0 or len(made) != spec["creates"]:
        raise Violation("forked-use-failed", f"TmpPool(multi_proc={spec['multi']}) built in the parent and used in a forked child: child "
                        f"exit code {os.waitstatus_to_exitcode(status)}, {len(made)} of {spec['creates']} files created", {})
    left = [p for p in made if os.path.exists(p)]
    if left:
        raise Violation("exit-leaves-files", f"TmpPool(multi_proc={spec['multi']}) built in the parent, entered and left in a forked child "
                        f"({'by exception' if spec['raises'] else 'normally'}): {len(left)} of {len(made)} files it created there still exist", {})
    if not spec["multi"]:
        pool.flush()
    if os.listdir(d):
        raise Violation("flush-leaves-files", f"after the parent's flush() the directory holds {os.listdir(d)}", {})
    res.seen(("tmpfork", repr(spec)))
    del pool


# --------------------------------------------------------------------------- FilePool

def run_filepool(case, res):
    from windpyutils.files import FilePool
    d = fresh_dir("fp")
    names = [os.path.join(d, f"f{i}.txt") for i in range(5)]
    for p in names:
        with open(p, "w") as f:
            f.write("seed line\n")
    paths = [names[i] for i in case["files"]]
    if case.get("odd_spellings"):
        # the same files named in ways that are not the shortest spelling: a path is a key exactly as it was given
        paths = [[p, os.path.join(d, ".", os.path.basename(p)), d + "//" + os.path.basename(p), os.path.join(d, "sub", "..", os.path.basename(p))][k % 4]
                 for k, p in enumerate(paths)]
        os.makedirs(os.path.join(d, "sub"), exist_ok=True)
    mode = case["mode"]
    if case.get("devnull") and mode not in ("r", "rb"):
        paths = paths[:1] + ["/dev/null"] + paths[1:]      # a non-regular file among the pool's files
    steps = case["ops"]
    routes = ["normal", "return"] + [f"raise@{j}" for j in range(len(steps) + 1)]

    for route in routes:
        handles = {}

        def fail(mech, msg):
            raise Violation(mech, f"FilePool({len(paths)} paths, mode {mode!r}) left by {route}: {msg}", {})

        def body(fp):
            stop_at = int(route.split("@")[1]) if route.startswith("raise") else None
            res.evaluations += 1
            if set(fp.keys()) != set(paths) or len(fp) != len(set(paths)):
                fail("filepool-mapping", f"keys {sorted(fp.keys())} != given paths {sorted(set(paths))}")
            for p in set(paths):
                h = fp[p]
                handles[p] = h
                if h.closed or os.path.realpath(h.name) != os.path.realpath(p) or h.mode.replace("b", "") != mode.replace("b", ""):
                    fail("filepool-mapping", f"handle for {p} is closed / not on that path / wrong mode")
            for j, (op, a) in enumerate(steps + [["end", 0]]):
                if stop_at == j:
                    raise Boom("body raises")
                if op == "end":
                    break
                if not paths:
                    continue
                p = paths[a % len(paths)]
                if op == "close_one":
                    fp[p].close()          # closing a handle inside the body is legal (closing twice is a no-op)
                elif op == "get":
                    if fp[p] is not handles[p]:
                        fail("filepool-mapping", "fp[path] returned another handle than before")
                elif op == "len":
                    len(fp)
                elif op == "iter":
                    list(fp)
                else:
                    h = fp[p]
                    if h.closed:
                        continue
                    if "r" in mode and "+" not in mode:
                        h.read(3)
                    else:
                        h.write(b"x" if "b" in mode else "x")
            if route == "return":
                return 1

        form = case.get("files_form", "list")
        given = {"list": lambda: list(paths), "tuple": lambda: tuple(paths), "gen": lambda: (p for p in paths),
                 "iter": lambda: iter(list(paths)), "map": lambda: map(str, paths),
                 "dict_keys": lambda: dict.fromkeys(paths).keys()}[form]()      # any iterable of paths, one-shot ones included
        fp_obj = FilePool(given, mode)
        if case.get("failed_first_enter") and mode in ("r", "rb", "r+") and len(set(paths)) >= 2 and form in ("list", "tuple", "dict_keys"):
            # the first attempt to enter fails (one of the files does not exist yet); the file appears and the SAME pool object
            # is entered again: that session is a session like any other
            missing = sorted(set(paths))[-1]
            os.rename(missing, missing + ".later")
            try:
                fp_obj.__enter__()
                os.rename(missing + ".later", missing)
                fail("filepool-mapping", f"entering with the missing file {os.path.basename(missing)} did not raise")
            except Violation:
                raise
            except Exception:
                os.rename(missing + ".later", missing)
            leaked = fds_on(names)
            if leaked:
                fail("filepool-fd-leak", f"after a failed enter descriptors are open on pool files: {leaked}")
            res.count("filepool_sessions_after_a_failed_enter")
        try:
            with fp_obj as fp:
                pool = fp
                body(fp)
            if route.startswith("raise"):
                fail("exception-swallowed", "exception raised in the body did not propagate")
        except Boom:
            pass
        except Violation:
            raise
        except Exception as e:
            still = [p for p, h in handles.items() if not h.closed]
            fail("filepool-exit-raised", f"leaving the context raised {type(e).__name__}: {e}; {len(still)} handle(s) left open")
        res.evaluations += 1
        res.count("filepool_executions")
        res.count("filepool_fault_positions" if route.startswith("raise") else "filepool_clean_exits")
        still = [p for p, h in handles.items() if not h.closed]
        if still:
            fail("filepool-handle-open", f"{len(still)} handle(s) still open after leaving the context")
        leaked = fds_on(names)
        if leaked:
            fail("filepool-fd-leak", f"descriptors still open on pool files: {leaked}")
        g = outcome(lambda: pool[paths[0]] if paths else len(pool))
        if g != ("exc", "RuntimeError"):
            fail("filepool-state", f"using the pool after the context -> {g}, documented RuntimeError")
        if len(steps) >= 1:
            res.seen(("fp", tuple(case["files"]), mode, tuple(s[0] for s in steps), route))


def run_case(case, res):
    _audit_on[0] = True
    try:
        with instr.budget(5_000_000):
            try:
                if case["kind"] == "tmp-single":
                    run_tmp_single(case, res)
                elif case["kind"] == "tmp-multi":
                    run_tmp_multi(case, res)
                elif case["kind"] == "tmp-race":
                    run_tmp_race(case, res)
                elif case["kind"] == "tmp-forked-use":
                    run_tmp_forked_use(case, res)
                else:
                    run_filepool(case, res)
            except instr.StepBudgetExceeded:
                raise Violation("operation-does-not-end", "case exceeded the statement budget", {})
    finally:
        _audit_on[0] = False


def plan(tier, seed):
    return seq.std_plan(__import__(MOD, fromlist=["x"]), tier, seed)


def run_shard(spec):
    instr.install(["windpyutils.files"])
    sys.addaudithook(_audit)
    try:
        out = seq.std_run_shard(__import__(MOD, fromlist=["x"]), spec)
        for k, v in AUDIT.items():
            out["counters"]["audit_" + k] = v
        out["inconclusive"] = [{"reason": v["summary"], "case": "tmp-multi"} for v in out["violations"]
                               if v["mechanism"] == "harness-timeout"]
        out["violations"] = [v for v in out["violations"] if v["mechanism"] != "harness-timeout"]
        return out
    finally:
        if _SCRATCH:
            shutil.rmtree(_SCRATCH, ignore_errors=True)


def replay(doc):
    instr.install(["windpyutils.files"])
    try:
        return seq.std_replay(__import__(MOD, fromlist=["x"]), doc)
    finally:
        if _SCRATCH:
            shutil.rmtree(_SCRATCH, ignore_errors=True)


RULE += ' Also (wave 9): the second pool in the SAME directory, a child process forked inside the context and terminated with SIGTERM.'


# ---- quiet histories (wave 12) ------------------------------------------------------------------------------------------
# Case indices above BASE_CASES repeat the ordinary generator (with its own random draws) but are observed only at the end of
# the history: the per-step observation reads the object through its public API, and a read can repair or overwrite state
# that one operation left behind for the next (a deferred update, a remembered position) before the next operation meets it.
_gen_case_ordinary = gen_case


def gen_case(rng, tier, index):
    if index >= BASE_CASES[tier]:
        c = _gen_case_ordinary(rng, tier, 10 * (index - BASE_CASES[tier]) + (index % 5))
        c["quiet"] = True
        return c
    return _gen_case_ordinary(rng, tier, index)


RULE += (' Also (wave 12): quiet histories (case indices above BASE_CASES) whose steps are not followed by a read through the '
         'public API; the full comparison comes once, at the end of the history.')
