"""
C04 - Worker lifecycle: begin first once, end last once, quota kept, none left running.

Monitor shape: offline checker over the cross-process event log written by an instrumented
subclass of the repository's worker (begin_enter/exit/raise, item, end_enter/exit per pid/wid under
one shared sequence counter) plus parent events (until_all_ready return, pool exit) and a /proc
scan after the pool context is left. Faults are enumerated: begin() raising in the n-th created
worker, the functor raising at the first / middle / last item of a call.
"""
from vf import pool_checks

PROP = "C04"
LEVEL = "fault_enumeration"
RULE = ("base cases: C03-style call histories (1-4 calls, FunctorPool and FactoryFunctorPool with quota 1-5), "
        "quotas given as int or as finite float, pool contexts left normally or through an exception raised by the body after its calls, until_all_ready() before the first call, between calls and polled from a side thread while calls run and workers are being replaced; slow begin() in every second worker and slow end() in workers that processed items (so that an early until_all_ready or an unjoined replaced worker is observable); fault positions enumerated over the base index: "
        "none / begin() of worker k raising (k = 0..workers-1 and a replacement worker) / functor raising at the "
        "first, a middle and the last item of a call. Fault-free cases also get the full delay sweep (one 120 ms delay "
        "per executed statement and occurrence, random combinations). Oracle over the log: per worker exactly one "
        "begin before its first item, exactly one end after its last item (also after a fault), no event after end, "
        "distinct chunks <= quota, until_all_ready returns after every initial worker's begin, after pool exit no "
        "worker pid is alive. distinct_nontrivial = distinct (base case, thread-switch-pair set, plan size)."
        " Also: faults raised as SystemExit, a stand-by worker with quota 0, float quotas, with-bodies that raise, until_all_ready polled from a side thread during calls, a pool with join_timeout 0.3 s whose begin() takes 0.9 s, three workers on a one-slot work queue that die in begin() while the stop orders are sent or stay in begin() for 1.6 s.")
ASSUMPTIONS = [
    "a raising functor leaves the consumer waiting for a chunk that cannot come (outside this property): fault runs "
    "drive the generator in a side thread, wait for quiescence and assert only lifecycle facts",
    "what until_all_ready() does when a begin() raised is not stated and not asserted",
    "a process counts as a worker left running only if its session id and parent pid are those of the case (pid numbers are recycled quickly under this load)",
]
NBASES = {"quick": 20, "thorough": 200}
SHARD_TIMEOUT = {"quick": 400, "thorough": 3000}
MOD = "vf.checks.c04"
START_METHODS = True
RANDOM_K = {"quick": 6, "thorough": 100}


def gen_base(rng, tier, index):
    from vf.checks import c03
    if index == 12 or (tier == "thorough" and index % 40 == 12):
        # a pool WITH join_timeout whose workers need longer than that for begin(): until_all_ready() still means ready
        return {"pool": "functor" if index % 80 < 40 else "factory", "workers": 2, "wq": None, "rq": None, "quota": None if index % 80 < 40 else 3,
                "join_timeout": 0.3, "begin_delay": 0.9 if tier == "quick" else rng.choice([0.9, 1.7]), "end_delay": 0,
                "ready_first": True, "ready_during": True,
                "calls": [{"ordered": True, "n": 4, "chunk": 1, "form": "list", "ready_after": True},
                          {"ordered": False, "n": 3, "chunk": 2, "form": "gen"}]}
    if index in (9, 10) or (tier == "thorough" and index % 40 in (9, 10)):
        # more workers than slots of the work queue, left at once: the stop orders do not fit into the queue. Base 9: two of
        # the workers die in begin() and never read theirs; base 10: the workers are busy in a slow begin() for longer than
        # the pool's internal put timeout
        b9 = index % 40 == 9
        return {"pool": "functor", "workers": 3, "wq": 0.5, "rq": None, "quota": None, "end_delay": 0, "no_sweep": b9,
                "begin_delay": 0.6 if b9 else (1.6 if tier == "quick" else rng.choice([1.6, 2.7])),
                # base 9: every worker dies in begin() (two of them after 0.6 s, i.e. after the pool started to send the orders)
                "faults": {"0": ["begin"], "1": ["begin"], "2": ["begin"]} if b9 else None, "side_thread": b9, "ready_first": False,
                "calls": [] if (b9 or index % 80 < 40) else [{"ordered": True, "n": 1, "chunk": 1, "form": "list"}]}
    if index in (11, 17) or (tier == "thorough" and index % 40 in (11, 17)):
        # the pool is left while the result generator of the last call is still alive (kept by the caller, as a traceback keeps
        # it) after one result: no worker may be running - or be started - once the context is left. Unbounded result
        # queue and no chunk limit (an unfinished call promises nothing else); base 17: a one-slot-per-worker work queue
        # and items that keep the workers busy for longer than the pool's internal put timeout
        slow = index % 40 == 17
        return {"pool": "factory" if (index // 40) % 2 == 0 else "functor", "workers": 2, "wq": 1.0 if slow else rng.choice([1.0, None]),
                "rq": None, "quota": None, "end_delay": 0.1, "begin_delay": 0, "ready_first": True, "body_raises": index % 80 < 40,
                "no_sweep": slow, "limit_factor": 2 if slow else 1,
                "calls": [{"ordered": False, "n": 3, "chunk": 1, "form": "list"},
                          {"ordered": True, "n": 6 if slow else 8, "chunk": 1, "form": "list", "abandon_after": 1,
                           "durations": {"mode": "all", "t": 1.25 if slow else 0.03}}]}
    if index % 16 == 6:
        # replacements right up to the end of the last call and an end() that takes 0.4 s in every worker that processed items:
        # whoever is not joined (a replaced worker, the last retiring one) is still inside end() when the context is left
        q = 1 + (index // 16) % 3
        return {"pool": "factory", "workers": 2, "quota": q, "wq": 1.0, "rq": None, "end_delay": 0.4, "begin_delay": 0, "ready_first": False,
                "worker_opts": {"quota_after_init": True},      # the chunk limit set through the attribute after construction

                "calls": [{"ordered": True, "n": 2 * q * 2, "chunk": 1, "form": "list"}, {"ordered": False, "n": 2 * q, "chunk": 1, "form": "gen"}]}
    case = c03.gen_base(rng, tier, index)
    case.pop("join_timeout", None)       # the property speaks about pools without join_timeout
    case.pop("no_sweep", None)
    case.pop("frac_quota", None)         # "at most k chunks" is asserted for whole k only
    case["calls"] = case["calls"][:rng.randint(1, 3)]
    if case["pool"] == "functor" and index % 3 == 0:
        # a plain pool whose workers carry a chunk limit (nobody replaces them): the limit still holds; the calls are kept
        # small enough for the remaining capacity
        total = sum(-(-c["n"] // c["chunk"]) for c in case["calls"])
        case["functor_quota"] = max(1, -(-total // case["workers"])) + 1
        if case["workers"] >= 2:
            case["zero_quota_worker"] = True       # worker 0 has the quota 0, the others share the work
            case["functor_quota"] = max(1, -(-total // (case["workers"] - 1))) + 1
        for c in case["calls"]:
            c["durations"] = {"mode": "hash", "t": 0.02}
    if index % 16 == 0:
        case["in_mp_child"] = True          # the pool lives in a child process of the multiprocessing package (a service process)
    if index % 16 == 1:
        case["exit_in_other_thread"] = True     # the context is entered by one thread and left by another
    if index % 4 == 1:
        case["body_raises"] = True          # the with-block is left through an exception
    if case.get("quota") and index % 3 == 1:
        case["float_quota"] = True          # max_chunks_per_worker given as 3.0 instead of 3
    if case["pool"] == "factory" and case.get("quota") and index % 16 == 14:
        # workers handed out as shallow copies of one prototype (they share its begin_finished event): until_all_ready() is not
        # asked for here (one shared event cannot speak for several workers), the life cycle of every worker is
        case["worker_opts"] = {"prototype_copy": True}
        case["ready_first"] = False
        case["no_ready"] = True
    elif case.get("quota") and index % 4 == 2:
        case["worker_opts"] = {"quota_after_init": True}      # the chunk limit set through the attribute after construction
    case["end_delay"] = rng.choice([0, 0.05, 0.15, 0.3])       # slow end(): an unjoined (replaced) worker is still in it
    case["begin_delay"] = rng.choice([0, 0, 0.05, 0.2])        # slow begin() in every second worker
    fault_kind = index % 5      # 0,1: none   2: begin   3: functor   4: none + ready between calls
    case["ready_first"] = fault_kind in (0, 4) or (fault_kind == 1 and rng.random() < 0.5)
    if fault_kind in (0, 1, 4):
        case["ready_during"] = True
    if fault_kind == 4:
        for c in case["calls"]:
            c["ready_after"] = True
    if case.get("no_ready"):
        case["ready_first"], case["ready_during"] = False, False
        for c in case["calls"]:
            c.pop("ready_after", None)
    if fault_kind == 2:
        if case["pool"] == "factory" and case.get("quota") and rng.random() < 0.4:
            serial = case["workers"] + rng.randrange(2)     # a replacement worker
        else:
            serial = (index // 5) % case["workers"]
        case["faults"] = {str(serial): ["begin", "system_exit"] if index % 10 >= 5 else ["begin"]}
        case["side_thread"] = True
        case["ready_first"] = False
    elif fault_kind == 3:
        cands = [ci for ci, c in enumerate(case["calls"]) if c["n"] > 0]
        if cands:
            ci = rng.choice(cands)
            n = case["calls"][ci]["n"]
            idx = [0, n // 2, n - 1][(index // 5) % 3]
            # the fault is armed in every worker: whichever worker receives that item raises
            nserial = case["workers"] + (12 if case.get("quota") else 0)
            case["faults"] = {str(s): ["item", ci, idx] + (["system_exit"] if index % 10 >= 5 else []) for s in range(nserial)}
            case["side_thread"] = True
            case["ready_first"] = False
    return case


def owns(kind, mech, case, result):
    if kind == "lifecycle":
        return True
    if kind == "deadlock" and mech == "exit-blocked" and all(f[0] == "begin" for f in (case.get("faults") or {}).values()):
        return True         # no fault, or workers that died in begin(): leaving the context still ends
    return False


def observe(case, result, res):
    f = case.get("faults")
    if f:
        k = next(iter(f.values()))[0]
        res.count("fault_runs_" + k)
        ev = result.get("events", [])
        if any(e["ev"] in ("begin_raise", "item_raise") for e in ev):
            res.count("fault_runs_where_the_fault_fired")
    else:
        res.count("fault_free_runs")
    ev = result.get("events", [])
    res.count("begin_events", sum(1 for e in ev if e["ev"] == "begin_enter"))
    res.count("end_events", sum(1 for e in ev if e["ev"] == "end_enter"))
    res.count("until_all_ready_returns", sum(1 for e in ev if e["ev"] in ("until_all_ready_return", "ready_during_return")))


def plan(tier, seed):
    return pool_checks.plan(__import__(MOD, fromlist=["x"]), tier, seed)


def run_shard(spec):
    mod = __import__(MOD, fromlist=["x"])
    return pool_checks.run_shard(mod, spec)


def replay(doc):
    return pool_checks.replay(__import__(MOD, fromlist=["x"]), doc)


RULE += ' Also (waves 8-9): pools left while the generator of the last call is still alive (items of 30 ms and of 1.25 s), the worker-storm rule while leaving, a pool inside a child process of the multiprocessing package, a context left by another thread than the one that entered it (an exception out of __exit__ with workers that never ran end() is a finding).'
