"""
C14 - TextFileStorage: what is stored under an id is what any process reads back.

Monitor shape: offline history checker over a cross-process event log with one logical clock
(store call/return, read call/return, unique text per (writer, id, attempt)): a read that returns
text t for id g is legal iff a store (g, t) was called before the read returned and was not rejected;
IndexError is legal iff no successful store of g had returned before the read was called. At the
quiescent point (all writers joined): len / is_contiguous / iteration / every id; then flush and
re-use. Reach: writer/reader/parent processes running concurrently + delay sweep over every
statement of __setitem__, __getitem__, open, __iter__ in every role.
"""
from vf import pool_checks
from vf import storage_engine  # noqa: F401  (registers the driver)

PROP = "C14"
LEVEL = "exploration"
RULE = ("base cases: 1-4 forked writer processes with an assignment of ids (contiguous, with gaps, reversed, "
        "interleaved, pre-sized index, the same id given to two writers, a writer storing an own id twice; writers that close and re-open the storage between stores and writers that stay open idle after their last store), 0-3 forked "
        "reader processes and the parent polling random ids (stored and never stored) WHILE the writers run; unique "
        "single-line texts with blanks, tabs, quotes, NUL, multi-byte UTF-8. Each base case: dry run, one run per "
        "(executed statement, occurrence) with a 120 ms delay in parent, writer and reader roles, random 2-3 delay "
        "combinations. Oracles: read/store history checker, final-state checks, flush and re-use, quiescence oracle. "
        "distinct_nontrivial = distinct (base case, cross-process order of store/read events) executions."
        " Also: a parent that stores before it forks the writers and while they run, a process forked before the first round that is used after flush(), readers created with a plain os.fork(), complete iterations while the writers run (checked against the store history), texts with characters that only str.splitlines() takes for line ends.")
ASSUMPTIONS = [
    "texts are single lines (no '\\n', '\\r') encodable as UTF-8; every process that writes is forked before it "
    "writes (one file per process, as documented); flush() is called after every process closed the storage",
    "the logical clock is a shared counter incremented under its lock around every logged call/return: file order = "
    "sequence order = a real-time-consistent total order",
    "hangs are decided by the quiescence oracle; the hard wall limit yields INCONCLUSIVE",
]
NBASES = {"quick": 16, "thorough": 160}
SHARD_TIMEOUT = {"quick": 400, "thorough": 3000}
SHARD_BUDGET_S = {"quick": 70, "thorough": 1500}
MOD = "vf.checks.c14"
MODULES = ["windpyutils.parallel.storage"]
SWEEP_PREFIXES = ["TextFileStorage"]
WORKER_QUALNAMES = ("TextFileStorage.__setitem__", "TextFileStorage.__getitem__", "TextFileStorage.open",
                    "TextFileStorage._open_file_for_read", "TextFileStorage._is_file_open_for_read")
WORKER_ROLES = ["workerW0", "workerR0", "workerR90"]
RANDOM_K = {"quick": 8, "thorough": 120}


def gen_base(rng, tier, index):
    if index == 13 or (tier == "thorough" and index % 40 == 13):
        # 140 writer processes (one id each, one after the other): more writer files than any cap on open read handles
        nwr = 140 if tier == "quick" else rng.choice([140, 300])
        return {"kind": "storage", "pool": "storage", "workers": nwr, "writers": [[[g, 0, 0]] for g in range(nwr)], "readers": 0,
                "presize": None, "extra_ids": [nwr + 1], "parent_polls": False, "parent_writes_late": True, "seed": rng.randrange(1 << 20),
                "max_reads": 0, "calls": [], "sequential_writers": True, "no_sweep": True, "limit_factor": 3, "parent_iterates": False}
    nw = rng.choice([1, 2, 2, 3, 4])
    style = index % 6
    nids = rng.randint(2, 10)
    if style == 0:
        ids = list(range(nids))                                   # contiguous
    elif style == 1:
        ids = sorted(rng.sample(range(nids * 2 + 2), nids))        # gaps
    elif style == 2:
        ids = list(range(nids))[::-1]                              # reversed arrival
    elif style == 3:
        ids = list(range(nids))
        rng.shuffle(ids)
    elif style == 4:
        ids = [0] + sorted(rng.sample(range(3, 3 + nids * 2), max(1, nids - 1)))   # 0 then a gap
    else:
        ids = list(range(1, nids + 1))                             # id 0 missing
    if index % 12 == 4:
        ids = [0, 1, 2, 3, 4, 1500, 1501, 3000]                    # a few ids with gaps of thousands between them
    writers = [[] for _ in range(nw)]
    for k, g in enumerate(ids):
        writers[k % nw].append([g, 0, rng.choice([0, 0, 0, 0.005, 0.02])])
    dup = index % 4 == 1
    if dup and ids:
        g = rng.choice(ids)
        w = rng.randrange(nw)
        writers[w].append([g, 1, 0])                               # a second store of that id (other or same writer)
        if nw > 1 and rng.random() < 0.5:
            writers[(w + 1) % nw].insert(0, [g, 2, 0])
    presize = rng.choice([None, None, None, len(ids), max(ids) + 3 if ids else 2, 1])
    return {"kind": "storage", "pool": "storage", "workers": nw, "writers": writers, "readers": rng.choice([0, 1, 2, 3]),
            "presize": presize, "extra_ids": [max(ids) + 1 if ids else 1, max(ids) + 40 if ids else 40],
            "parent_polls": rng.random() < 0.8, "parent_writes_late": index % 3 == 0, "seed": rng.randrange(1 << 20),
            "max_reads": 250, "calls": [], "writer_reopens": index % 4 == 2, "linger": rng.choice([0, 0, 0.05, 0.15]),
            "parent_reads_before_fork": index % 4 == 3, "raw_fork_readers": (1 + index % 2) if index % 4 == 3 else 0,
            "late_user": index % 3 == 1, "late_user_reads_first": index % 6 == 4, "parent_iterates": index % 2 == 1, "companion_storage": index % 3 == 0,
            "parent_stores_first": [max(ids) + 5, max(ids) + 6] if (ids and (index % 4 == 0 or index % 8 == 2)) else [],
            "parent_stores_during": [max(ids) + 8 + j for j in range(3)] if (ids and (index % 4 == 0 or index % 8 == 2)) else []}


def findings(case, result, res):
    fs, nreads = storage_engine.storage_findings(case, result)
    res.count("reads_checked", nreads)
    res.count("stores_checked", sum(1 for e in result.get("events", []) if e["ev"] == "store_ret"))
    ev = result.get("events", [])
    q = next((e["seq"] for e in ev if e["ev"] == "quiescent"), None)
    if q is not None:
        first_store = next((e["seq"] for e in ev if e["ev"] == "store_call"), None)
        last_store = max((e["seq"] for e in ev if e["ev"] == "store_ret"), default=None)
        if first_store is not None and last_store is not None:
            res.count("reads_concurrent_with_writers", sum(1 for e in ev if e["ev"] == "read_ret" and first_store < e["seq"] < last_store))
    return [("storage", m, s) for m, s in fs]


def owns(kind, mech, case, result):
    return kind == "storage"


def plan(tier, seed):
    return pool_checks.plan(__import__(MOD, fromlist=["x"]), tier, seed)


def run_shard(spec):
    return pool_checks.run_shard(__import__(MOD, fromlist=["x"]), spec)


def replay(doc):
    return pool_checks.replay(__import__(MOD, fromlist=["x"]), doc)


RULE += ' Also (waves 8-9): ids with gaps of thousands (0..4, 1500, 1501, 3000), a pre-forked process that reads everything at the end of the first round, closes, and is used again after flush() and new stores.'
