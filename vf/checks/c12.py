"""
C12 - Mutable line files act as a list of lines; save writes it; source untouched.

Monitor shape: reference model (python list) compared after every edit of a generated history on
all four mutable variants; byte-level check of save() output for several line endings; reopen of
the saved file with every variant; SHA-256 / mtime monitor on the source file.
"""
import hashlib
import io
import os
import shutil
from dataclasses import dataclass

from vf import common, instr, seq
from vf.common import Violation
from vf.seq import outcome

PROP = "C12"
LEVEL = "exploration"
RULE = ("seeded cases: initial file of 0-10 lines (and a few files of 4096-10000 lines) (empty lines, ASCII, multi-byte UTF-8, long lines; no line breaks "
        "inside; with or without final newline; built index or a caller-supplied subset / permutation of line offsets), variant in the 4 mutable classes (record variants with a pass-through and a JSON record class), "
        "history of 0-40 operations (one in nine histories contains no edit at all): f[i]=x, del f[i], insert, append, extend, pop, remove, reverse, +=, mixed with "
        "reads (len, f[i], slices, iteration, in/index/count) at in- and out-of-range positions and close()/open() of the same object followed by a read of the next line, then save() to a "
        "path or TextIO with ending in {\\n, \\r\\n, \\t, '', '<>'} and reopen with every variant. Oracle after every "
        "operation: full content == list model, exception class == list's, dirty flag rule, source SHA-256+mtime "
        "unchanged. distinct_nontrivial = distinct (variant, operation-kind sequence, final content) cases with >=2 "
        "edits.")
ASSUMPTIONS = [
    "line contents (initial and inserted) contain neither '\\n' nor '\\r' (statement: content without line breaks)",
    "dirty must be False before the first mutator call and True after an edit that changed the content (plain "
    "variants); its value after a failed or content-preserving edit is not judged",
    "for line endings other than '\\n' only the written bytes are judged, not what reopening yields",
    "record variants: byte exactness of save() is not demanded, every saved line must load to the model's record",
]
BASE_CASES = {"quick": 3200, "thorough": 200000}
NCASES = {"quick": 3840, "thorough": 240000}
NSHARDS = 16
SHARD_TIMEOUT = {"quick": 300, "thorough": 3600}
MOD = "vf.checks.c12"

VARIANTS = ["MutableRandomLineAccessFile", "MutableMemoryMappedRandomLineAccessFile", "MutableRecordFile:raw",
            "MutableMemoryMappedRecordFile:raw", "MutableRecordFile:json", "MutableMemoryMappedRecordFile:json"]
ALPHABET = ["", "a", "b", "line", "hello world", "  padded  ", "\t", "žluťoučký kůň", "日本語", "😀", "x" * 30, "0", "a,b", "a", "\ufeffbom first"]
ENDINGS = ["\n", "\n", "\r\n", "\t", "", "<>"]
OPS = ["set", "set", "del", "insert", "insert", "append", "extend", "pop", "pop_i", "remove", "reverse", "iadd",
       "get", "slice", "list", "len", "contains", "index", "count", "reopen_next"]
_SCRATCH = None
_CLS = {}


def record_classes():
    if not _CLS:
        from windpyutils.files import Record, JsonRecord

        @dataclass
        class Raw(Record):
            s: str

            @classmethod
            def load(cls, s):
                return cls(s)

            def save(self):
                return self.s

        @dataclass
        class JRec(JsonRecord):
            s: str
            n: int = 0
        _CLS["raw"] = Raw
        _CLS["json"] = JRec
    return _CLS


def gen_case(rng, tier, index):
    n = rng.choice([0, 1, 2, 3, 4, 5, 6, 8, 10])
    lines = [rng.choice(ALPHABET) for _ in range(n)]
    if index % 400 == 11 or (tier == "thorough" and index % 100 == 11):
        # thousands of lines: batching / chunking inside save() and the readers gets exercised
        nbig = rng.choice([4096, 4097, 8192, 8200, 10000])
        lines = [f"line {i}" for i in range(nbig)]
        if rng.random() < 0.5:
            # 16-byte lines: the file is an exact multiple of 64 KiB long
            lines = [f"{i:015d}" for i in range(rng.choice([4096, 8192]))]
        ops = [[rng.choice(["append", "set", "insert", "del", "get"]), rng.randrange(1 << 20), rng.randrange(len(ALPHABET)),
                rng.randrange(1 << 20)] for _ in range(rng.randint(0, 3))]
        return {"lines": lines, "final_nl": True, "variant": VARIANTS[(index // 11) % len(VARIANTS)], "ops": ops, "index": "built",
                "index_seed": 0, "ending": rng.choice(["\n", "\n", "\r\n", "<>"]), "save_to": rng.choice(["path", "stringio"]),
                "big": True}
    if index % 13 == 0 and n:
        lines[rng.randrange(n)] = rng.choice(["y" * 8192, "ž" * 4097, "w" * 20000])
    ops = []
    for _ in range(rng.randint(5, 40)):
        ops.append([rng.choice(OPS), rng.randrange(1 << 20), rng.randrange(len(ALPHABET)), rng.randrange(1 << 20)])
    if index % 9 == 4:
        # no edit at all: an unmodified file must still save exactly its (selected) lines
        ops = [o for o in ops if o[0] in ("get", "slice", "list", "len", "contains", "index", "count")][:6]
    return {"lines": lines, "final_nl": rng.random() < 0.7, "variant": VARIANTS[index % len(VARIANTS)], "ops": ops,
            "index": rng.choice(["built", "built", "built", "subset", "perm"]), "index_seed": rng.randrange(1 << 20),
            "ending": ENDINGS[rng.randrange(len(ENDINGS))], "save_to": rng.choice(["path", "path", "stringio", "file"]),
            "names": rng.choice([None, None, None, "relative_target", "source_is_target_tmp"])}


def shrinkable(case):
    def rebuild(ops):
        c = dict(case)
        c["ops"] = ops
        return c
    return list(case["ops"]), rebuild


def describe(case):
    return {"lines": [l if len(l) < 40 else l[:20] + f"..({len(l)})" for l in case["lines"]], "variant": case["variant"],
            "ops": [o[0] for o in case["ops"]], "ending": case["ending"], "save_to": case["save_to"]}


def scratch():
    global _SCRATCH
    if _SCRATCH is None:
        _SCRATCH = common.scratch_dir("vf-c12-")
    return _SCRATCH


def sha(path):
    with open(path, "rb") as f:
        return hashlib.sha256(f.read()).hexdigest()


def run_case(case, res):
    with instr.budget(5_000_000 if not case.get("big") else 400_000_000):
        try:
            _run(case, res)
        except instr.StepBudgetExceeded:
            raise Violation("operation-does-not-end", "history exceeded the statement budget", {})


def _run(case, res):
    import windpyutils.files as wf
    d = scratch()
    # the source may be called "<target>.tmp" (somebody's half-finished download): saving next to it must not touch it
    src = os.path.join(d, "saved.txt.tmp" if case.get("names") == "source_is_target_tmp" else "src.txt")
    vname, _, rkind = case["variant"].partition(":")
    is_rec = bool(rkind)
    plain_lines = list(case["lines"])
    if rkind == "json":
        J = record_classes()["json"]
        file_lines = [J(s, i).save() for i, s in enumerate(plain_lines)]
    else:
        file_lines = plain_lines
    content = "\n".join(file_lines) + ("\n" if (case["final_nl"] and file_lines) else "")
    if not rkind or rkind == "raw":
        # the model starts from what the file contains (an unterminated empty last line does not exist)
        plain_lines = content.split("\n")
        if plain_lines[-1] == "":
            plain_lines.pop()
    with open(src, "wb") as f:
        f.write(content.encode("utf-8"))
    os.utime(src, (1_600_000_000, 1_600_000_000))
    st0 = (sha(src), os.stat(src).st_mtime_ns, os.stat(src).st_size)
    if content == "" and "MemoryMapped" in vname:
        res.count("skipped_empty_mmap")
        return
    cls = getattr(wf, vname)
    offsets = None
    if case.get("index", "built") != "built" and plain_lines:
        # caller-supplied offset index: a subset or a permutation of the lines is the initial content
        import random
        r2 = random.Random(case.get("index_seed", 0))
        offs, pos = [], 0
        for l in file_lines:
            offs.append(pos)
            pos += len(l.encode("utf-8")) + 1
        sel = list(range(len(offs)))[:len(plain_lines)]
        if case["index"] == "subset":
            sel = [i for i in sel if r2.random() < 0.6]
        else:
            r2.shuffle(sel)
        if sel or "MemoryMapped" not in vname:
            offsets = [offs[i] for i in sel]
            plain_lines = [plain_lines[i] for i in sel]
            file_lines = [file_lines[i] for i in sel]
    if is_rec:
        R = record_classes()[rkind]
        obj = cls(src, R, offsets) if offsets is not None else cls(src, R)
        mk = (lambda s, k=0: R(s)) if rkind == "raw" else (lambda s, k=0: R(s, k))
        model = [R(s) for s in plain_lines] if rkind == "raw" else [R.load(l) for l in file_lines]
    else:
        obj = cls(src, offsets) if offsets is not None else cls(src)
        mk = lambda s, k=0: s
        model = list(plain_lines)
    mutated = False
    edits = 0
    sig = []

    def fail(mech, msg):
        raise Violation(mech, f"{case['variant']}: {msg}", {"model": _short(model)})

    def check_all(desc):
        res.evaluations += 1
        if len(obj) != len(model):
            fail("len-mismatch", f"after {desc}: len -> {len(obj)}, list model has {len(model)}")
        got = outcome(lambda: [obj[i] for i in range(len(model))])
        if got != ("ok", model):
            fail("content-mismatch", f"after {desc}: items by index -> {_short(got)}, list model {_short(model)}")
        got = outcome(lambda: list(obj))
        if got != ("ok", model):
            fail("content-mismatch", f"after {desc}: iteration -> {_short(got)}, list model {_short(model)}")
        for i in (len(model), len(model) + 3, -len(model) - 1):
            g = outcome(lambda: obj[i])
            if g != ("exc", "IndexError"):
                fail("index-error", f"after {desc}: f[{i}] with {len(model)} lines -> {_short(g)}, expected IndexError")
        if not is_rec:
            if not mutated and obj.dirty:
                fail("dirty-flag", f"after {desc}: dirty is True although no mutator was called")
        if not os.path.exists(src):
            fail("source-modified", f"after {desc}: the source file {os.path.basename(src)} is gone")
        st = (sha(src), os.stat(src).st_mtime_ns, os.stat(src).st_size)
        if st != st0:
            fail("source-modified", f"after {desc}: the source file changed on disk")

    obj.open()
    try:
        check_all("open")
        for op, a, b, c in case["ops"]:
            n = len(model)
            s = ALPHABET[b]
            x = mk(s, c % 5)
            before = list(model)
            desc = op
            is_edit = True
            if op == "set":
                i = a % (2 * n + 3) - (n + 1)
                desc = f"f[{i}] = {s!r}"
                got = outcome(lambda: obj.__setitem__(i, x))
                want = outcome(lambda: model.__setitem__(i, x))
            elif op == "del":
                i = a % (2 * n + 3) - (n + 1)
                desc = f"del f[{i}]"
                got = outcome(lambda: obj.__delitem__(i))
                want = outcome(lambda: model.__delitem__(i))
            elif op == "insert":
                i = a % (2 * n + 5) - (n + 2)
                desc = f"insert({i}, {s!r})"
                got = outcome(lambda: obj.insert(i, x))
                want = outcome(lambda: model.insert(i, x))
            elif op == "append":
                desc = f"append({s!r})"
                got = outcome(lambda: obj.append(x))
                want = outcome(lambda: model.append(x))
            elif op in ("extend", "iadd"):
                xs = [mk(ALPHABET[(b + j) % len(ALPHABET)], j) for j in range(c % 4)]
                desc = f"{op}({len(xs)} items)"
                if op == "extend":
                    got = outcome(lambda: obj.extend(xs if a % 2 else iter(xs)))
                else:
                    def do():
                        nonlocal obj
                        o2 = obj
                        o2 += xs
                        if o2 is not obj:
                            raise AssertionError("+= returned another object")
                    got = outcome(do)
                want = outcome(lambda: model.extend(xs))
            elif op == "pop":
                desc = "pop()"
                got = outcome(lambda: obj.pop())
                want = outcome(lambda: model.pop())
            elif op == "pop_i":
                i = a % (2 * n + 3) - (n + 1)
                desc = f"pop({i})"
                got = outcome(lambda: obj.pop(i))
                want = outcome(lambda: model.pop(i))
            elif op == "remove":
                tgt = model[a % n] if (n and c % 3) else x
                desc = f"remove({_short(tgt)})"
                got = outcome(lambda: obj.remove(tgt))
                want = outcome(lambda: model.remove(tgt))
            elif op == "reverse":
                got = outcome(lambda: obj.reverse())
                want = outcome(lambda: model.reverse())
            else:
                is_edit = False
                if op == "get":
                    i = a % (2 * n + 3) - (n + 1)
                    desc = f"f[{i}]"
                    got, want = outcome(lambda: obj[i]), outcome(lambda: model[i])
                elif op == "slice":
                    vals = [None, 0, 1, -1, n, n // 2, -2, n + 2]
                    sl = slice(vals[a % 8], vals[c % 8], [None, 1, 2, -1][b % 4])
                    desc = f"f[{sl}]"
                    got, want = outcome(lambda: obj[sl]), outcome(lambda: model[sl])
                elif op == "reopen_next" and c % 3 == 1:
                    # a shallow copy of the opened object (it shares the handle and the pending edits), the original is dropped and
                    # collected; the history goes on through the copy
                    import copy
                    import gc
                    if n == 0:
                        continue
                    o2 = copy.copy(obj)
                    obj = o2
                    o2 = None
                    gc.collect()
                    res.count("shallow_copies_with_the_original_dropped")
                    i = a % n
                    desc = f"f[{i}] through a copy.copy of the opened object (the original dropped and collected)"
                    got, want = outcome(lambda: obj[i]), ("ok", model[i])
                elif op == "reopen_next":
                    # the same object is closed and opened again (a second `with` session); the first read afterwards is the
                    # line that follows the last one read before closing
                    if n == 0:
                        continue
                    i = a % n
                    first = outcome(lambda: obj[i])
                    obj.close()
                    g0 = outcome(lambda: obj[0])
                    if g0 != ("exc", "RuntimeError"):
                        fail("closed-file", f"read on the closed file -> {_short(g0)}, documented RuntimeError")
                    if c % 3 == 2:
                        # while the object is closed the source gets a new modification time, its bytes stay what they were (touch, a
                        # restore from a backup): the pending edits of the object are still there after open()
                        os.utime(src, (1_600_000_000 + 1000 * (a % 50 + 1), 1_600_000_000 + 1000 * (a % 50 + 1)))
                        st0 = (sha(src), os.stat(src).st_mtime_ns, os.stat(src).st_size)
                        res.count("sources_touched_while_the_object_was_closed")
                    obj.open()
                    j = (i + 1) % n
                    desc = f"f[{i}], close(), open(), f[{j}]"
                    got, want = (first, outcome(lambda: obj[j])), (("ok", model[i]), ("ok", model[j]))
                elif op == "list":
                    got, want = outcome(lambda: list(obj)), ("ok", list(model))
                elif op == "len":
                    got, want = outcome(lambda: len(obj)), ("ok", n)
                elif op == "contains":
                    got, want = outcome(lambda: x in obj), ("ok", x in model)
                elif op == "index":
                    got, want = outcome(lambda: obj.index(x)), outcome(lambda: model.index(x))
                else:
                    got, want = outcome(lambda: obj.count(x)), ("ok", model.count(x))
            res.count("op_" + op)
            if got != want:
                fail("edit-result" if is_edit else "read-mismatch",
                     f"{desc} on {n} lines -> {_short(got)}, a list gives {_short(want)}")
            if is_edit:
                mutated = True
                if got[0] == "ok":
                    edits += 1
                    sig.append(op)
                if not is_rec and model != before and not obj.dirty:
                    fail("dirty-flag", f"after {desc} changed the content dirty is still False")
            if not case.get("quiet"):
                check_all(desc)
            else:
                res.count("quiet_steps_not_followed_by_a_read")

        if case.get("quiet"):
            check_all(f"the whole quiet history of {len(case['ops'])} operations")
            res.count("quiet_histories")
        # ---- save
        ending = case["ending"]
        out = os.path.join(d, "saved.txt")
        if os.path.exists(out):
            os.remove(out)
        if case["save_to"] == "path" and case.get("names") == "relative_target":
            # a bare file name, relative to the current directory
            cwd = os.getcwd()
            os.chdir(d)
            try:
                got = outcome(lambda: obj.save("saved.txt", ending))
            finally:
                os.chdir(cwd)
            data = open(out, "rb").read() if os.path.exists(out) else None
        elif case["save_to"] == "path":
            got = outcome(lambda: obj.save(out, ending))
            data = open(out, "rb").read() if os.path.exists(out) else None
        elif case["save_to"] == "file":
            with open(out, "w", newline="") as fh:
                got = outcome(lambda: obj.save(fh, ending))
            data = open(out, "rb").read()
        else:
            sio = io.StringIO(newline="")
            got = outcome(lambda: obj.save(sio, ending))
            data = sio.getvalue().encode("utf-8")
            with open(out, "wb") as fh:
                fh.write(data)
        if got != ("ok", None):
            fail("save-raised", f"save(ending={ending!r}) -> {got}")
        res.count("saves")
        if not is_rec:
            want_bytes = "".join(l + ending for l in model).encode("utf-8")
            if data != want_bytes:
                fail("save-bytes", f"save(ending={ending!r}, to {case['save_to']}) wrote {_short(data)}, expected {_short(want_bytes)}")
        else:
            text = data.decode("utf-8")
            if ending == "\n":
                saved_lines = text.split("\n")
                if saved_lines and saved_lines[-1] == "":
                    saved_lines.pop()
                if len(saved_lines) != len(model) or any(R.load(l) != r for l, r in zip(saved_lines, model)):
                    fail("save-bytes", f"saved record file has lines {_short(saved_lines)} for records {_short(model)}")
        check_all("save")
        if ending == "\n":
            for v2 in VARIANTS:
                n2, _, k2 = v2.partition(":")
                if bool(k2) != is_rec or (k2 and k2 != rkind):
                    continue
                if not model and "MemoryMapped" in n2:
                    continue
                c2 = getattr(wf, n2)
                o2 = c2(out, R) if is_rec else c2(out)
                with o2:
                    g = outcome(lambda: list(o2))
                    g2 = outcome(lambda: [o2[i] for i in range(len(o2))])
                if g != ("ok", model) or g2 != ("ok", model):
                    fail("reopen-mismatch", f"saved file reopened with {n2} -> {_short(g)}, list model {_short(model)}")
                res.count("reopens")
    finally:
        try:
            obj.close()
        except Exception:
            pass
    if edits >= 2:
        res.seen((case["variant"], tuple(sig), common.h64(repr(model))))


def _short(x):
    r = repr(x)
    return r if len(r) < 260 else r[:180] + f"...({len(r)} chars)"


def plan(tier, seed):
    return seq.std_plan(__import__(MOD, fromlist=["x"]), tier, seed)


def run_shard(spec):
    instr.install(["windpyutils.files"])
    try:
        return seq.std_run_shard(__import__(MOD, fromlist=["x"]), spec)
    finally:
        if _SCRATCH:
            shutil.rmtree(_SCRATCH, ignore_errors=True)


def replay(doc):
    instr.install(["windpyutils.files"])
    try:
        return seq.std_replay(__import__(MOD, fromlist=["x"]), doc)
    finally:
        if _SCRATCH:
            shutil.rmtree(_SCRATCH, ignore_errors=True)


RULE += ' Also (wave 9): shallow copies of the opened object with the original dropped and collected.'


# ---- quiet histories (wave 12) ------------------------------------------------------------------------------------------
# Case indices above BASE_CASES repeat the ordinary generator (with its own random draws) but are observed only at the end of
# the history: the per-step observation reads the object through its public API, and a read can repair or overwrite state
# that one operation left behind for the next (a deferred update, a remembered position) before the next operation meets it.
_gen_case_ordinary = gen_case


def gen_case(rng, tier, index):
    if index >= BASE_CASES[tier]:
        c = _gen_case_ordinary(rng, tier, index - BASE_CASES[tier] + 1)
        c["quiet"] = True
        return c
    return _gen_case_ordinary(rng, tier, index)


RULE += (' Also (wave 12): quiet histories (case indices above BASE_CASES) whose steps are not followed by a read through the '
         'public API; the full comparison comes once, at the end of the history.')
