"""
C15 - Reorder buffers emit each item once in serial order; ring buffer keeps last N.

Monitor shape: online trace checker. Every arrival order (all n! for small n, sampled for large n)
is fed to the real Buffer / PrintBuffer with drain points chosen by the seed; the checker watches
the emitted stream (exactly once, ascending, no item before its predecessors, counters) after every
step. CircularBuffer is compared with a list-tail model after every put/clear.
"""
import io
import itertools

from vf import common, instr
from vf.common import ShardResult
from vf.seq import outcome

PROP = "C15"
LEVEL = "exploration"
RULE = ("Buffer and PrintBuffer: all n! arrival orders for n<=7 (quick) / n<=8 (thorough), each with 3 seeded choices "
        "of drain points (after every arrival / random subset / only at the end), with unique payloads and with falsy / empty payloads (None, 0, '', blank lines), plus seeded orders up to n=200 and in-order / window-shuffled streams of 300-700 items (serials beyond the small-int cache); "
        "then flush()/clear() and a second round on the same object. CircularBuffer: capacities 1..9, seeded "
        "put/clear sequences, every index in [-c-2, c+2] probed after every step, `in` / index / count of current, overwritten, cleared and never-put values compared with the list model. distinct_nontrivial = distinct "
        "(structure, arrival order, drain pattern) resp. (capacity, content) cases with >=2 items.")
ASSUMPTIONS = [
    "a drain is a complete iteration of the Buffer (the way imap uses it); abandoned half-consumed drain generators "
    "are not part of the statement",
    "serial numbers are unique within one round (documented requirement)",
    "PrintBuffer.flush() moving waiting_for past the largest held serial is the documented behaviour",
]
SHARD_TIMEOUT = {"quick": 300, "thorough": 3600}
NSHARDS = 16


def plan(tier, seed):
    return [{"tier": tier, "seed": seed, "shard": i, "nshards": NSHARDS} for i in range(NSHARDS)]


def _o(order):
    return order if len(order) <= 16 else f"{order[:8]}...({len(order)} items)...{order[-4:]}"


def drain_points(n, mode, rng):
    if mode == 0:
        return set(range(n))
    if mode == 1:
        return {n - 1} if n else set()
    return {i for i in range(n) if rng.random() < 0.4} | ({n - 1} if n else set())


FALSY = [None, 0, "", (), False, 0.0, []]


def run_buffer(order, drains, via_call_chain, falsy=False):
    """Feeds `order` to a real Buffer, draining after the arrivals in `drains`. Returns None or (mech, summary)."""
    from windpyutils.buffers import Buffer
    comp = Buffer()         # a second, independent buffer that holds serial 2 and waits for 0 the whole time
    comp(2, "companion")
    bad = _run_buffer(Buffer(), order, drains, via_call_chain, falsy)
    if bad is None and (len(comp) != 1 or comp.waiting_for() != 0 or list(comp) != []):
        return "other-instance-disturbed", (f"a second Buffer holding serial 2 (waiting for 0), untouched during the run, now has "
                                            f"len={len(comp)}, waiting_for={comp.waiting_for()}")
    return bad


def _run_buffer(b, order, drains, via_call_chain, falsy):
    if falsy:
        # items that are falsy / None / equal to each other: position in the output is all that identifies them
        return _run_buffer_falsy(b, order, drains)
    for rnd in range(2):
        emitted = []
        arrived = set()
        for pos, serial in enumerate(order):
            item = ("item", rnd, serial)
            if via_call_chain and pos in drains:
                out = outcome(lambda: list(b(serial, item)))   # imap's idiom: for ch in buffer(i, x)
            else:
                r = outcome(lambda: b(serial, item))
                if r[0] != "ok" or r[1] is not b:
                    return "buffer-add", f"Buffer()({serial}, x) -> {r}, expected the buffer itself"
                out = outcome(lambda: list(b)) if pos in drains else ("ok", [])
            arrived.add(serial)
            if out[0] != "ok":
                return "buffer-drain-raised", f"drain after arrival of {serial} raised {out[1]} (order {order})"
            for x in out[1]:
                want = ("item", rnd, len(emitted))
                if x != want:
                    return "buffer-order", (f"order {_o(order)}, drains after positions {sorted(drains)}: emitted {x} where "
                                            f"{want} was due (emitted so far {len(emitted)})")
                if any(p not in arrived for p in range(x[2] + 1)):
                    return "buffer-order", f"emitted serial {x[2]} before all predecessors arrived"
                emitted.append(x)
            if pos in drains:
                # after a drain everything whose predecessors arrived must be out
                k = 0
                while k in arrived:
                    k += 1
                if len(emitted) != k:
                    return "buffer-lost", (f"order {_o(order)}: after draining at position {pos} {len(emitted)} items are "
                                           f"out but serials 0..{k - 1} have all arrived")
            if b.waiting_for() != len(emitted):
                # between drains waiting_for equals the number emitted so far
                return "buffer-counters", f"waiting_for()={b.waiting_for()} but {len(emitted)} items were emitted"
            if len(b) != len(arrived) - len(emitted):
                return "buffer-counters", f"len(buffer)={len(b)} but {len(arrived) - len(emitted)} items are held back"
        rest = outcome(lambda: list(b))
        if rest[0] != "ok":
            return "buffer-drain-raised", f"final drain raised {rest[1]}"
        for x in rest[1]:
            if x != ("item", rnd, len(emitted)):
                return "buffer-order", f"order {_o(order)}: final drain emitted {x}, due {len(emitted)}"
            emitted.append(x)
        if len(emitted) != len(order):
            return "buffer-lost", f"order {_o(order)}: {len(emitted)} of {len(order)} items emitted"
        if order:
            late = outcome(lambda: b(0, "again"))
            if late != ("exc", "AttributeError"):
                return "buffer-generated-position", f"placing an already generated position -> {late}, documented AttributeError"
        # leave something inside, then flush: documented reset
        b(len(order) + 3, "junk")
        b.flush()
        if len(b) != 0 or b.waiting_for() != 0 or list(b) != []:
            return "buffer-flush", f"after flush(): len={len(b)}, waiting_for={b.waiting_for()}"
    return None


def _run_buffer_falsy(b, order, drains):
    val = lambda serial: FALSY[serial % len(FALSY)]
    emitted = 0
    arrived = set()
    for pos, serial in enumerate(order):
        b(serial, val(serial))
        arrived.add(serial)
        if pos in drains or pos == len(order) - 1:
            out = outcome(lambda: list(b))
            k = 0
            while k in arrived:
                k += 1
            want = [val(x) for x in range(emitted, k)]
            if out[0] != "ok" or len(out[1]) != len(want) or any(type(a) is not type(w) or a != w for a, w in zip(out[1], want)):
                return "buffer-falsy-items", (f"order {_o(order)}: drain after arrival #{pos} emitted {out}, expected {want!r} "
                                              f"(items are None/0/''/()/False/0.0/[] by serial)")
            emitted = k
        if b.waiting_for() != emitted or len(b) != len(arrived) - emitted:
            return "buffer-counters", (f"falsy items, order {order}: waiting_for={b.waiting_for()}, len={len(b)}; emitted "
                                       f"{emitted}, held {len(arrived) - emitted}")
    return None


class _LineCollector:
    """A legal output object (it has write()) that also has a length - and is therefore falsy while nothing was written."""

    def __init__(self):
        self.parts = []

    def write(self, s):
        self.parts.append(s)
        return len(s)

    def flush(self):
        pass

    def __len__(self):
        return len(self.parts)

    def getvalue(self):
        return "".join(self.parts)

    def seek(self, pos):
        pass

    def truncate(self, size=0):
        self.parts = []


def run_print_buffer(order, drains, end, blank=False):
    """drains for PrintBuffer = positions after which the text printed so far is inspected (printing is eager)."""
    from windpyutils.buffers import PrintBuffer
    out = _LineCollector() if (len(order) + sum(order[:2])) % 3 == 1 else io.StringIO()
    comp_out = io.StringIO()
    comp = PrintBuffer(comp_out)      # a second, independent print buffer holding serial 2
    comp.print(2, "companion")
    bad = _run_print_buffer(PrintBuffer(out, end=end), out, order, drains, end, blank)
    if bad is None and (len(comp) != 1 or comp.waiting_for != 0 or comp_out.getvalue() != ""):
        return "other-instance-disturbed", (f"a second PrintBuffer holding serial 2, untouched during the run: len={len(comp)}, "
                                            f"waiting_for={comp.waiting_for}, printed {comp_out.getvalue()!r}")
    return bad


def _run_print_buffer(pb, out, order, drains, end, blank):
    txt = (lambda rnd, serial: "" if serial % 3 != 2 else f"<{rnd}:{serial}>") if blank else \
        (lambda rnd, serial: f"<{rnd}:{serial}>")
    for rnd in range(2):
        out.seek(0)
        out.truncate(0)
        arrived = set()
        nprinted = 0
        for pos, serial in enumerate(order):
            r = outcome(lambda: pb.print(serial, txt(rnd, serial)))
            arrived.add(serial)
            k = 0
            while k in arrived:
                k += 1
            want_ret = k > nprinted
            if r != ("ok", want_ret):
                return "print-return", f"order {_o(order)}: print({serial}) -> {r}, expected {want_ret}"
            nprinted = k
            if pos in drains:
                text = out.getvalue()
                want = "".join(f"{txt(rnd, s)}{end}" for s in range(nprinted))
                if text != want:
                    return "print-order", f"order {_o(order)}: printed {text!r}, expected {want!r}"
            if pb.waiting_for != nprinted:
                return "print-counters", f"waiting_for={pb.waiting_for}, {nprinted} items printed"
            if len(pb) != len(arrived) - nprinted:
                return "print-counters", f"len={len(pb)}, {len(arrived) - nprinted} held back"
        text = out.getvalue()
        want = "".join(f"{txt(rnd, s)}{end}" for s in range(len(order)))
        if text != want:
            return "print-order", f"order {_o(order)}: final text {text!r}, expected {want!r}"
        # documented flush: prints the held items ascending, waiting_for -> largest+1 (unchanged when empty)
        n = len(order)
        wf = pb.waiting_for
        pb.flush()
        if pb.waiting_for != wf or out.getvalue() != want:
            return "print-flush", "flush() of an empty buffer changed waiting_for or printed something"
        held = [n + 5, n + 2, n + 9]
        for s in held:
            if pb.print(s, f"<h{s}>") is not False:
                return "print-return", f"print({s}) while waiting for {n} did not return False"
        pb.flush()
        want2 = want + "".join(f"<h{s}>{end}" for s in sorted(held))
        if out.getvalue() != want2 or pb.waiting_for != n + 10 or len(pb) != 0:
            return "print-flush", (f"flush() with held {held}: text tail {out.getvalue()[len(want):]!r}, waiting_for="
                                   f"{pb.waiting_for} (documented: ascending order, largest+1={n + 10})")
        pb.print(n + 20, "junk")
        pb.clear()
        if pb.waiting_for != 0 or len(pb) != 0 or out.getvalue() != want2:
            return "print-clear", f"clear(): waiting_for={pb.waiting_for}, len={len(pb)} or something was printed"
    return None


def run_print_retarget(order, switch_at):
    """The documented public variables fileOut / end / printFlush are changed between two arrivals: what is printed from
    then on goes to the new stream with the new end."""
    from windpyutils.buffers import PrintBuffer
    out1, out2 = io.StringIO(), io.StringIO()
    pb = PrintBuffer(out1, end="|")
    want = {1: "", 2: ""}
    cur = 1
    arrived = set()
    nxt = 0
    for pos, serial in enumerate(order):
        if pos == switch_at:
            pb.fileOut = out2
            pb.end = "#"
            pb.printFlush = True
            cur = 2
        pb.print(serial, f"<{serial}>")
        arrived.add(serial)
        while nxt in arrived:
            want[cur] += f"<{nxt}>" + ("|" if cur == 1 else "#")
            nxt += 1
    got = {1: out1.getvalue(), 2: out2.getvalue()}
    if got != want:
        return "print-target", (f"order {_o(order)}, fileOut/end re-assigned before arrival #{switch_at}: first stream {got[1]!r}, second "
                                f"stream {got[2]!r}; expected {want[1]!r} and {want[2]!r}")
    return None


def run_print_contexts(order, split_at):
    """The same stream fed (a) partly in the parent and partly in a forked child (a process that goes on after a fork, e.g. a
    daemonising one), (b) from inside a running asyncio event loop. Printing is synchronous and in order in both."""
    import os
    from windpyutils.buffers import PrintBuffer, Buffer
    want = "".join(f"<{s}>|" for s in range(len(order)))
    # (a) fork in the middle
    out = io.StringIO()
    pb = PrintBuffer(out, end="|")
    bf = Buffer()
    emitted = []
    for serial in order[:split_at]:
        pb.print(serial, f"<{serial}>")
        emitted.extend(bf(serial, serial))
    r, w = os.pipe()
    pid = os.fork()
    if pid == 0:
        msg = b""
        try:
            os.close(r)
            for serial in order[split_at:]:
                pb.print(serial, f"<{serial}>")
                emitted.extend(bf(serial, serial))
            got = (out.getvalue(), pb.waiting_for, len(pb), emitted, bf.waiting_for(), len(bf))
            exp = (want, len(order), 0, list(range(len(order))), len(order), 0)
            if got != exp:
                msg = repr(got).encode()[:500]
        except BaseException as e:
            msg = ("raised " + repr(e)).encode()[:500]
        finally:
            try:
                os.write(w, msg)
            finally:
                os._exit(0)
    os.close(w)
    data = b""
    while True:
        chunk = os.read(r, 4096)
        if not chunk:
            break
        data += chunk
    os.close(r)
    os.waitpid(pid, 0)
    if data:
        return "fork-continuation", (f"order {_o(order)}: the first {split_at} arrivals in the parent, the rest in a forked child; the child ends "
                                     f"with (printed, waiting_for, len, Buffer output, ...) = {data.decode(errors='replace')}, expected {want!r} and "
                                     f"everything emitted")
    # (b) inside a running event loop
    import asyncio
    out2 = io.StringIO()
    pb2 = PrintBuffer(out2, end="|")
    seen = []

    async def feed():
        for serial in order:
            pb2.print(serial, f"<{serial}>")
            seen.append(out2.getvalue())
            await asyncio.sleep(0)
    asyncio.run(feed())
    arrived, k = set(), 0
    for pos, serial in enumerate(order):
        arrived.add(serial)
        while k in arrived:
            k += 1
        exp = "".join(f"<{s}>|" for s in range(k))
        if seen[pos] != exp:
            return "print-order", (f"order {_o(order)} fed from a coroutine: right after print({serial}) the output is {seen[pos]!r}, "
                                   f"expected {exp!r}")
    if out2.getvalue() != want:
        return "print-order", f"order {_o(order)} fed from a coroutine: final output {out2.getvalue()!r}, expected {want!r}"
    return None


def run_print_flush_gap(order, flush_at):
    """PrintBuffer with an intermediate flush() while a gap exists: flush prints what is held (ascending) and moves
    waiting_for past it (documented); items that arrive later are stored ('stores that value for later') and must come
    out at the next flush - every item exactly once, len() == number held."""
    from windpyutils.buffers import PrintBuffer
    out = io.StringIO()
    pb = PrintBuffer(out, end="|")
    held = {}
    wf = 0
    printed = []
    for pos, serial in enumerate(order):
        if pos == flush_at:
            pb.flush()
            for k in sorted(held):
                printed.append(k)
            if held:
                wf = max(held) + 1
            held = {}
        r = pb.print(serial, f"<{serial}>")
        if serial == wf:
            printed.append(serial)
            wf += 1
            while wf in held:
                printed.append(wf)
                del held[wf]
                wf += 1
            want_ret = True
        else:
            held[serial] = True
            want_ret = False
        if r is not want_ret:
            return "print-return", f"order {_o(order)}, flush before arrival #{flush_at}: print({serial}) -> {r}, expected {want_ret}"
        if len(pb) != len(held) or pb.waiting_for != wf:
            return "print-counters", (f"order {_o(order)}, flush before arrival #{flush_at}: after print({serial}) len={len(pb)} "
                                      f"waiting_for={pb.waiting_for}; {len(held)} items are held, next serial due {wf}")
    pb.flush()
    printed += sorted(held)
    text = out.getvalue()
    want = "".join(f"<{k}>|" for k in printed)
    if text != want:
        return "print-order", (f"order {_o(order)}, flush before arrival #{flush_at}: printed {text!r}, documented behaviour gives "
                               f"{want!r}")
    if sorted(printed) != list(range(len(order))):
        raise AssertionError("reference model lost an item")
    return None


def run_circular(cap, ops, quiet=False):
    from windpyutils.structures.circular_buffer import CircularBuffer
    comp = CircularBuffer(3)        # a second, independent ring buffer
    comp.put("companion-a")
    comp.put("companion-b")
    bad = _run_circular(CircularBuffer(cap), cap, ops, quiet)
    if bad is None and (list(comp) != ["companion-a", "companion-b"] or len(comp) != 2 or comp.max_size != 3):
        return "other-instance-disturbed", f"a second ring buffer [companion-a, companion-b], untouched during the run, presents {list(comp)}"
    return bad


def _run_circular(cb, cap, ops, quiet=False):
    hist = []
    ever = []
    if cb.max_size != cap:
        return "circular", f"max_size={cb.max_size}, constructed with {cap}"
    for step, (op, val) in enumerate(ops):
        if op == "put":
            r = outcome(lambda: cb.put(val))
            hist.append(val)
            ever.append(val)
        else:
            r = outcome(lambda: cb.clear())
            hist = []
        if r != ("ok", None):
            return "circular-operation-raised", f"capacity {cap}, step {step + 1}: {op} -> {r}"
        if cb.max_size != cap:
            return "circular-capacity", f"capacity {cap}: max_size became {cb.max_size} after {step + 1} operations"
        want = hist[-cap:]
        if quiet and step + 1 < len(ops) and (step * 7 + len(ops)) % 5:
            # quiet history: most steps are not followed by a read (a read may refresh what a put / clear left behind)
            continue
        got = outcome(lambda: list(cb))
        if got != ("ok", want) or len(cb) != len(want):
            return "circular-content", (f"capacity {cap}, after {step + 1} ops: list(buffer)={got}, len={len(cb)}, "
                                        f"last {min(len(hist), cap)} puts are {want}")
        for i in range(-cap - 2, cap + 3):
            g = outcome(lambda: cb[i])
            w = ("ok", want[i]) if 0 <= i < len(want) else ("exc", "IndexError")
            if g != w:
                return "circular-index", f"capacity {cap}, content {want}: buffer[{i}] -> {g}, expected {w}"
        if want:
            if (want[-1] in cb) is not True or ("absent" in cb) is not False or list(reversed(cb)) != want[::-1]:
                return "circular-content", f"capacity {cap}: membership/reversed disagree with content {want}"
        # the sequence views (in, index, count) present the same content: items overwritten or cleared away and the
        # never-put None are absent
        for x in [None] + ever[-(2 * cap + 2):]:
            g = (outcome(lambda: x in cb), outcome(lambda: cb.index(x)), outcome(lambda: cb.count(x)))
            w = (("ok", x in want), ("ok", want.index(x)) if x in want else ("exc", "ValueError"), ("ok", want.count(x)))
            if g != w:
                return "circular-content", (f"capacity {cap}, presented content {want} (earlier puts: {ever[-(2 * cap + 2):]}): "
                                            f"(in, index, count) of {x!r} -> {g}, a list gives {w}")
    return None


def run_circular_big(cap, nputs):
    """Capacities of thousands: content checked every 97 puts and at the end (a per-step check would be quadratic)."""
    from windpyutils.structures.circular_buffer import CircularBuffer
    cb = CircularBuffer(cap)
    if cb.max_size != cap:
        return "circular", f"max_size={cb.max_size}, constructed with {cap}"
    for k in range(nputs):
        r = outcome(lambda: cb.put(k))
        if r != ("ok", None):
            return "circular-operation-raised", f"capacity {cap}, put #{k + 1} -> {r}"
        if k % 97 == 0 or k == nputs - 1 or k in (cap - 1, cap, cap + 1, 1023, 1024, 1025):
            want = list(range(max(0, k + 1 - cap), k + 1))
            got = outcome(lambda: list(cb))
            if got != ("ok", want) or len(cb) != len(want) or cb.max_size != cap:
                g = got[1] if got[0] == "ok" else got
                return "circular-content", (f"capacity {cap}, after {k + 1} puts: len={len(cb)}, max_size={cb.max_size}, list(buffer) "
                                            f"starts {str(g[:3])}, ends {str(g[-3:])}; the last {len(want)} puts are {want[0]}..{want[-1]}")
            for i in (0, len(want) - 1, len(want) // 2):
                if outcome(lambda: cb[i]) != ("ok", want[i]):
                    return "circular-index", f"capacity {cap}, after {k + 1} puts: buffer[{i}] -> {outcome(lambda: cb[i])}, expected {want[i]}"
    return None


def run_print_backlog(n):
    """More than a million values held back while serial 0 is still missing: nothing is printed before serial 0 arrives, then
    everything in order."""
    from windpyutils.buffers import PrintBuffer

    class _Count:
        def __init__(self):
            self.n, self.first, self.last, self.ordered = 0, None, None, True

        def write(self, s):
            for part in s.split("\n"):
                if part:
                    v = int(part)
                    if self.first is None:
                        self.first = v
                    if self.last is not None and v != self.last + 1:
                        self.ordered = False
                    self.last = v
                    self.n += 1
            return len(s)

        def flush(self):
            pass
    out = _Count()
    pb = PrintBuffer(out)
    for k in range(n, 0, -1):
        r = pb.print(k, str(k))
        if r is not False or out.n:
            return "print-order", f"{n - k + 1} values held back while serial 0 is missing: print({k}) -> {r}, {out.n} items were written (first {out.first})"
    if len(pb) != n or pb.waiting_for != 0:
        return "print-counters", f"{n} values held back: len={len(pb)}, waiting_for={pb.waiting_for}"
    pb.print(0, "0")
    if out.n != n + 1 or not out.ordered or out.first != 0 or pb.waiting_for != n + 1 or len(pb) != 0:
        return "print-order", (f"serial 0 arrived after {n} later ones: {out.n} items written (first {out.first}, last {out.last}, ascending: "
                               f"{out.ordered}), waiting_for={pb.waiting_for}, len={len(pb)}")
    return None


def run_shard(spec):
    instr.install(["windpyutils.buffers", "windpyutils.structures.circular_buffer"])
    res = ShardResult()
    tier, seed, shard, nsh = spec["tier"], spec["seed"], spec["shard"], spec["nshards"]
    per = {}

    def report(bad, case):
        per[bad[0]] = per.get(bad[0], 0) + 1
        if per[bad[0]] <= 10:
            res.violation(bad[0], bad[1], {"case": case})

    nmax = 8 if tier == "thorough" else 7
    idx = 0

    def orders():
        for n in range(0, nmax + 1):
            for p in itertools.permutations(range(n)):
                yield list(p)
        rng = common.rng_for(PROP, seed, "long")
        # very long held-back runs: the first item arrives last (a slow first worker), deeper than any recursion limit
        for n in ((1500, 5000) if tier == "quick" else (1500, 5000, 20000)):
            yield list(range(1, n)) + [0]
            yield list(range(n - 1, -1, -1))
        # long streams in order / in small shuffled windows: serial numbers far beyond the range of small cached ints,
        # also given as ints computed at run time (int(str)) - equal numbers that are different objects
        for n in ((300, 700) if tier == "quick" else (300, 700, 3000)):
            yield [int(str(i)) for i in range(n)]
            p = [int(str(i)) for i in range(n)]
            for w in range(0, n - 8, 8):
                win = p[w:w + 8]
                rng.shuffle(win)
                p[w:w + 8] = win
            yield p
        for _ in range(300 if tier == "quick" else 3000):
            n = rng.choice([9, 12, 20, 50, 100, 200])
            p = list(range(n))
            style = rng.random()
            if style < 0.3:
                p.reverse()
            elif style < 0.6:
                rng.shuffle(p)
            else:  # nearly sorted with local swaps and one late head
                for _ in range(n // 3):
                    i = rng.randrange(n - 1)
                    p[i], p[i + 1] = p[i + 1], p[i]
                p.append(p.pop(0))
            yield p

    for order in orders():
        idx += 1
        if idx % nsh != shard:
            continue
        rng = common.rng_for(PROP, seed, "drain", idx)
        for mode in (0, 1, 2):
            drains = drain_points(len(order), mode, rng)
            with instr.budget(5_000_000 + 400 * len(order)):
                try:
                    bad = run_buffer(order, drains, via_call_chain=(mode != 1 and idx % 2 == 0))
                    res.evaluations += 1
                    res.count("buffer_runs")
                    if bad:
                        report(bad, {"what": "buffer", "order": order, "drains": sorted(drains),
                                     "chain": (mode != 1 and idx % 2 == 0)})
                    bad = run_print_buffer(order, drains, ["\n", "", "|"][mode])
                    res.evaluations += 1
                    res.count("print_buffer_runs")
                    if bad:
                        report(bad, {"what": "print", "order": order, "drains": sorted(drains), "end": ["\n", "", "|"][mode]})
                    if mode != 1:
                        bad = run_buffer(order, drains, False, falsy=True)
                        res.evaluations += 1
                        res.count("buffer_runs_falsy_items")
                        if bad:
                            report(bad, {"what": "buffer-falsy", "order": order, "drains": sorted(drains), "chain": False})
                        bad = run_print_buffer(order, drains, ["\n", "", "|"][mode], blank=True)
                        res.evaluations += 1
                        res.count("print_buffer_runs_blank_lines")
                        if bad:
                            report(bad, {"what": "print-blank", "order": order, "drains": sorted(drains),
                                         "end": ["\n", "", "|"][mode]})
                except instr.StepBudgetExceeded:
                    report(("operation-does-not-end", f"order {_o(order)}: statement budget exceeded"),
                           {"what": "buffer", "order": order, "drains": sorted(drains), "chain": False})
            if len(order) >= 2:
                res.seen(("b", tuple(order) if len(order) <= 12 else common.h64(order), tuple(sorted(drains))[:12]))
        if 2 <= len(order) <= 6 and idx % 3 == 0:
            bad = run_print_contexts(order, 1 + idx % (len(order) - 1))
            res.evaluations += 2
            res.count("streams_continued_in_a_forked_child_and_fed_from_a_coroutine")
            if bad:
                report(bad, {"what": "contexts", "order": order, "split_at": 1 + idx % (len(order) - 1)})
        if 2 <= len(order) <= 6:
            for fa in range(1, len(order)):
                bad = run_print_retarget(order, fa)
                res.evaluations += 1
                res.count("print_buffer_runs_with_reassigned_output")
                if bad:
                    report(bad, {"what": "print-retarget", "order": order, "switch_at": fa})
                with instr.budget(5_000_000):
                    bad = run_print_flush_gap(order, fa)
                res.evaluations += 1
                res.count("print_buffer_runs_with_intermediate_flush")
                if bad:
                    report(bad, {"what": "print-gap", "order": order, "flush_at": fa})
        if idx % 1999 == 0:
            res.sample({"arrival_order": order[:20], "drain_modes": ["after every arrival", "only at end", "random subset"]})

    rng = common.rng_for(PROP, seed, "circ", shard)
    for j in range(250 if tier == "quick" else 4000):
        cap = 1 + (j % 9)
        ops = []
        for k in range(rng.randint(1, 40)):
            ops.append(("clear", None) if rng.random() < 0.07 else ("put", (j, k)))
        res.evaluations += len(ops)
        res.count("circular_histories")
        with instr.budget(5_000_000):
            try:
                bad = run_circular(cap, ops)
            except instr.StepBudgetExceeded:
                bad = ("operation-does-not-end", "circular buffer: statement budget exceeded")
        if bad:
            report(bad, {"what": "circular", "cap": cap, "ops": [[o, list(v) if v else None] for o, v in ops]})
        if len(ops) >= 2:
            res.seen(("c", cap, tuple(o for o, _ in ops)))
    rng = common.rng_for(PROP, seed, "circ-quiet", shard)
    for j in range(150 if tier == "quick" else 2500):
        cap = 1 + (j % 9)
        ops = []
        for k in range(rng.randint(2, 40)):
            ops.append(("clear", None) if rng.random() < 0.1 else ("put", (j, k)))
        res.evaluations += len(ops)
        res.count("circular_quiet_histories_read_at_few_points_only")
        with instr.budget(5_000_000):
            try:
                bad = run_circular(cap, ops, quiet=True)
            except instr.StepBudgetExceeded:
                bad = ("operation-does-not-end", "circular buffer: statement budget exceeded")
        if bad:
            report(bad, {"what": "circular", "cap": cap, "quiet": True, "ops": [[o, list(v) if v else None] for o, v in ops]})
    # ring buffers with capacities of thousands, and (one shard) a PrintBuffer holding more than a million values
    for cap in ([1025, 2049][shard % 2::2] if tier == "quick" else [1025, 1500, 2049, 4097, 10001][shard % 5::5]):
        res.evaluations += 1
        res.count("circular_histories_with_capacity_above_1024")
        with instr.budget(80_000_000):
            try:
                bad = run_circular_big(cap, cap + 700)
            except instr.StepBudgetExceeded:
                bad = ("operation-does-not-end", "circular buffer: statement budget exceeded")
        if bad:
            report(bad, {"what": "circular-big", "cap": cap, "nputs": cap + 700})
    if shard == 5:
        nheld = (1 << 20) + 5
        res.evaluations += 1
        res.count("print_buffers_holding_more_than_a_million_values")
        with instr.budget(400_000_000):
            try:
                bad = run_print_backlog(nheld)
            except instr.StepBudgetExceeded:
                bad = ("operation-does-not-end", "print buffer with a long backlog: statement budget exceeded")
        if bad:
            report(bad, {"what": "print-backlog", "n": nheld})
    res.count("repo_line_events", instr.S.total)
    return res.as_dict()


def extra_coverage(tier, seed):
    return {"exhaustive": True, "explanation": "all n! arrival orders for n<=7 (quick) / n<=8 (thorough) enumerated "
            "for both reorder buffers; drain points, long orders and ring-buffer histories are sampled"}


def replay(doc):
    instr.install(["windpyutils.buffers", "windpyutils.structures.circular_buffer"])
    c = doc["replay"]["case"]
    if c["what"] == "buffer":
        bad = run_buffer(c["order"], set(c["drains"]), c["chain"])
    elif c["what"] == "print-gap":
        bad = run_print_flush_gap(c["order"], c["flush_at"])
    elif c["what"] == "contexts":
        bad = run_print_contexts(c["order"], c["split_at"])
    elif c["what"] == "print-retarget":
        bad = run_print_retarget(c["order"], c["switch_at"])
    elif c["what"] == "buffer-falsy":
        bad = run_buffer(c["order"], set(c["drains"]), False, falsy=True)
    elif c["what"] == "circular-big":
        bad = run_circular_big(c["cap"], c["nputs"])
    elif c["what"] == "print-backlog":
        bad = run_print_backlog(c["n"])
    elif c["what"] in ("print", "print-blank"):
        bad = run_print_buffer(c["order"], set(c["drains"]), c["end"], blank=c["what"] == "print-blank")
    else:
        bad = run_circular(c["cap"], [(o, tuple(v) if v else None) for o, v in c["ops"]], quiet=bool(c.get("quiet")))
    if bad:
        return True, f"reproduced: {bad[0]}: {bad[1]}"
    return False, "trace accepted by the checker"


RULE += ' Also (wave 9): an output object that is falsy while empty.'
