"""
C02 - imap and imap_unordered always terminate on finite input (no deadlock).

"Eventually terminates" is restated as bounded progress and decided by STATE, not by time: the
refuting observation is a quiescent state (no event logged, no statement of repository code executed
in any process, nobody inside an injected or data delay, every process blocked, all thread stacks
frozen for >=1.6 s, i.e. >10x the longest injected delay) in which the consumer has not finished.
The witness holds the stacks, the progress flags and the queue sizes.
"""
from vf import pool_checks

PROP = "C02"
LEVEL = "exploration"
RULE = ("base cases: single call on a fresh pool (FunctorPool / FactoryFunctorPool without quota), inputs produced by "
        "slow iterators whose items AND whose StopIteration arrive late (0 / 50 / 300 ms after the last item), lengths "
        "that are and are not multiples of the chunk size, results_queue_maxsize 1-3 with functor delays that make "
        "the head chunk late (the reorder buffer fills, flow control pauses the feeder, also around the last chunk), "
        "work queue bounds {None,1,2,0.5,1.0}. Each base case: dry run, one run per (executed statement, occurrence) "
        "with a 120 ms delay (imap, imap_unordered, _get_results, SendWorkThread.run, CMThread.stop, worker loop, "
        "Buffer), random 2-3 delay combinations, forced GIL hand-offs; leaving the pool context is inside the "
        "watched region. distinct_nontrivial = distinct (base case, thread-switch-pair set, plan size).")
ASSUMPTIONS = [
    "functors return normally and the generator is fully consumed",
    "liveness is restated as bounded progress: a run that neither finishes nor becomes quiescent within the hard "
    "wall limit (40 s quick / 75 s thorough; normal runs take 0.05-1 s) is INCONCLUSIVE, never a violation",
    "quiescence = 1.6 s (quick) / 2.5 s (thorough) without any event, line event, cpu tick or stack change and with "
    "no pending injected/data delay",
]
NBASES = {"quick": 16, "thorough": 160}
SHARD_TIMEOUT = {"quick": 400, "thorough": 3000}
MOD = "vf.checks.c02"
START_METHODS = True
INSTR_HOT = ("FunctorPool.imap", "FunctorPool.imap_unordered", "FunctorPool._get_results", "FunctorPool.SendWorkThread.run",
             "FactoryFunctorPool.ReplaceWorkerThread.run", "FactoryFunctorPool.ReplaceWorkerThread.stop", "CMThread.stop")
INSTR_SAMPLE = 70
INSTR_AUTO = ("FunctorPool.*", "FactoryFunctorPool.*", "CMThread.*")


def gen_base(rng, tier, index):
    if index == 12 or (tier == "thorough" and index % 40 == 12):
        # an input that pauses for seconds (longer than any plausible idle timeout of a worker), workers started through a
        # fork server or spawned (their OS parent is not the process that created them)
        gap = 5.0 if tier == "quick" else rng.choice([5.0, 6.5, 11.0])     # (workers started through a fork server need a second or so before they are idle)
        return {"pool": "factory" if index % 80 >= 40 else "functor", "workers": 2, "wq": 1.0, "rq": None, "quota": 2 if index % 80 >= 40 else None,
                "no_sweep": True, "limit_factor": 3, "start": "forkserver" if index % 3 == 0 else "spawn",
                "calls": [{"ordered": index % 2 == 0, "n": 4, "chunk": 1, "form": "slow", "slow": {"before": {"2": gap}, "stop": gap}}]}
    workers = rng.choice([1, 2, 2, 3, 4])
    chunk = rng.choice([1, 1, 2, 3, 4])
    k = rng.randint(1, 6)
    n = chunk * k + (1 if index % 2 else 0)
    if index % 9 == 8:
        n = 0
    nchunks = max(1, -(-n // chunk))
    style = index % 4
    call = {"ordered": index % 5 != 4, "n": n, "chunk": chunk, "salt": rng.randrange(1000)}
    rq = rng.choice([None, 1, 2, 3])
    if style in (0, 1):
        # late items / late exhaustion
        call["form"] = "slow"
        before = {}
        if n:
            for _ in range(rng.randint(0, 2)):
                before[str(rng.randrange(n))] = rng.choice([0.01, 0.05, 0.1])
            if rng.random() < 0.5:
                before[str(n - 1)] = rng.choice([0.05, 0.15])
        call["slow"] = {"before": before, "stop": rng.choice([0, 0.05, 0.3])}
    else:
        # flow control: bounded result buffer + late head / alternating chunks
        call["form"] = rng.choice(["list", "gen", "slow", "deque", "intseq"])
        if call["form"] == "slow":
            call["slow"] = {"before": {}, "stop": rng.choice([0, 0.05, 0.3])}
        rq = rng.choice([1, 1, 2, 3])
        call["durations"] = {"mode": rng.choice(["slow_chunk", "slow_chunk", "alternate", "decreasing"]),
                             "t": rng.choice([0.03, 0.06]), "chunk": rng.choice([0, 0, max(0, nchunks - 2), nchunks - 1]),
                             "phase": rng.randrange(2), "nchunks": nchunks}
        workers = max(workers, 2)
    case = {"pool": "factory" if index % 4 == 1 else "functor", "workers": workers,
            "wq": rng.choice([None, 1, 2, 0.5, 1.0, 1.0]), "rq": rq, "calls": [call]}
    if index % 8 == 2 and n >= 2:
        # a request/response stream: the next item exists only after the previous result was received
        call.update(chunk=1, form="list", request_response=True)
        call.pop("slow", None)
    if index % 8 == 3 and n:
        # "everything in one chunk" spelled as a huge chunk size (sys.maxsize, 2**100, infinity)
        call.update(chunk=n + 5, chunk_special=["maxsize", "huge", "inf"][(index // 8) % 3])
        call.pop("durations", None)
    if index % 16 == 1:
        # a two-stage pipeline: another pool's ordered imap is the input of this call (two calls alive at once)
        call = {"ordered": True, "n": 14 + index % 5, "chunk": 2, "form": "list", "salt": 1,
                "durations": {"mode": "alternate", "t": 0.03, "chunk": 0, "phase": index % 2, "nchunks": 8}}
        case.update(calls=[call], nested_pool=True, workers=max(2, case["workers"]), pool="functor")
    if index % 16 == 10:
        # more workers than chunks with a chunk size above one (this base runs in a shard that turns the library's own warnings
        # into errors)
        case["workers"] = 4
        call.update(n=7, chunk=5)
        call.pop("request_response", None)
    if index % 8 == 6:
        case["worker_opts"] = {"functor_forks_a_child": True}      # the functor uses a helper process of its own
    return case


def owns(kind, mech, case, result):
    return kind == "deadlock"


def observe(case, result, res):
    call = case["calls"][0]
    if call.get("form") == "slow" and (call.get("slow") or {}).get("stop", 0) > 0 and result.get("status") == "completed":
        res.count("runs_with_late_exhaustion_completed")
    if result.get("status") == "deadlock":
        res.count("quiescent_states_inspected")


def plan(tier, seed):
    return pool_checks.plan(__import__(MOD, fromlist=["x"]), tier, seed)


def run_shard(spec):
    return pool_checks.run_shard(__import__(MOD, fromlist=["x"]), spec)


def replay(doc):
    return pool_checks.replay(__import__(MOD, fromlist=["x"]), doc)


RULE += " Also (waves 8-9): chunk sizes given as sys.maxsize / 2**100 / infinity; one base with more workers than chunks run with the library's own warnings turned into errors."
