"""
C11 - Line files: indexing, slicing and iteration return exactly the file's lines.

Monitor shape: reference model (content.split('\\n') selected by the supplied index) compared with
every read of a generated read history, on every variant, incl. iterators advanced one step at a
time interleaved with random reads and with a second iterator; buffered and mmap variants are
driven with the same history on the same file.
"""
import os
import shutil
from dataclasses import dataclass

from vf import common, instr, seq
from vf.common import Violation
from vf.seq import outcome

PROP = "C11"
LEVEL = "exploration"
RULE = ("seeded (file content, variant, index source, read history) cases. Content: 0-12 lines from an alphabet with "
        "empty lines, ASCII, 2/3/4-byte UTF-8, BOM char, '\\r' inside / at the end of lines, lines of 8191/8192/8193/"
        "70000 bytes, with and without final '\\n', the empty file (buffered variants), and a 1.1 MB file of 70000 fixed-width lines (line starts on every power-of-two boundary). Variants: all 8 line/record "
        "file classes (mutable ones unmodified, record ones with a pass-through record). Index: built, explicit "
        "list (full / subset / permutation / with repeats), index file. History: len, f[i] for i in [-n-2,n+1], "
        "slices with all sign/step combinations, index iterables, full iteration, iterators advanced with next() "
        "interleaved with reads and a second iterator. distinct_nontrivial = distinct (content, variant, index, "
        "history) cases with >=2 lines.")
ASSUMPTIONS = [
    "a line is a maximal run of bytes between '\\n' delimiters; '\\r' is ordinary content (statement: '\\n'-delimited)",
    "files are UTF-8 and the process runs with PYTHONUTF8=1",
    "an explicit offset index lists valid line-start byte offsets of the file",
]
NCASES = {"quick": 4800, "thorough": 300000}
NSHARDS = 16
SHARD_TIMEOUT = {"quick": 300, "thorough": 3600}
MOD = "vf.checks.c11"

VARIANTS = ["RandomLineAccessFile", "MemoryMappedRandomLineAccessFile", "MutableRandomLineAccessFile",
            "MutableMemoryMappedRandomLineAccessFile", "RecordFile", "MemoryMappedRecordFile", "MutableRecordFile",
            "MutableMemoryMappedRecordFile"]
ALPHABET = ["", "", "a", "line", "hello world", "  padded  ", "\t", "žluťoučký kůň", "日本語テキスト", "emoji 😀 end", "﻿bom",
            "cr\rinside", "trailing cr\r", "\r", "\r\r", "x" * 40, "ěščřžýáíé" * 5, "a,b;c\"d'e", "0", "-1"]
_SCRATCH = None


def _raw_record_class():
    from windpyutils.files import Record

    @dataclass
    class Raw(Record):
        s: str

        @classmethod
        def load(cls, s):
            return cls(s)

        def save(self):
            return self.s
    return Raw


def gen_case(rng, tier, index):
    if index % 600 == 7 or (tier == "thorough" and index % 150 == 7):
        # a file larger than any I/O or index-building chunk (1.1 MB) of fixed-width 16-byte lines: a line start falls
        # on every power-of-two boundary (4 KiB ... 1 MiB)
        n = 70000 + rng.randrange(3)
        content = "".join(f"{i:015d}\n" for i in range(n))
        if rng.random() < 0.5:
            content = content[:-1]
        probes = sorted({0, 1, n - 1, n - 2, -1, 255, 256, 257, 511, 512, 4095, 4096, 4097, 65535, 65536, 65537, 65538,
                         32767, 32768, 69999} | {rng.randrange(n) for _ in range(6)})
        ops = [["len", 0, 0, 0]] + [["get_abs", i, 0, 0] for i in probes if -n <= i < n] + [["it_new", 0, 0, 0], ["it_next", 0, 0, 0]]
        return {"content": content, "variant": VARIANTS[(index // 7) % len(VARIANTS)], "index": "built", "index_seed": 0,
                "ops": ops, "big": True}
    if index % 600 == 8 or (tier == "thorough" and index % 150 == 8):
        # one line of 17 Mi characters (a minified document, a base64 blob) between short ones
        content = "first\n" + "z" * (17 * 2 ** 20 + rng.randrange(3)) + "\nlast\n"
        ops = [["len", 0, 0, 0], ["get_abs", 1, 0, 0], ["get_abs", 2, 0, 0], ["get_abs", 0, 0, 0], ["get_abs", -2, 0, 0], ["list", 0, 0, 0]]
        return {"content": content, "variant": VARIANTS[(index // 8) % len(VARIANTS)], "index": "built", "index_seed": 0, "ops": ops, "big": True}
    if index % 60 == 9:
        # files whose size is an exact multiple of the usual buffer / chunk sizes (4 KiB, 8 KiB, 64 KiB, 128 KiB), with and
        # without the final terminator: 16-byte lines
        n = rng.choice([256, 512, 4096, 8192])
        content = "".join(f"{i:015d}\n" for i in range(n))
        if rng.random() < 0.3:
            content = content[:-1]
        probes = sorted({0, 1, n - 1, n - 2, -1, 255, 256, 511, n // 2} | {rng.randrange(n) for _ in range(4)})
        ops = [["len", 0, 0, 0]] + [["get_abs", i, 0, 0] for i in probes if -n <= i < n] + [["it_new", 0, 0, 0], ["it_next", 0, 0, 0],
                                                                                             ["slice", 1, 2, 3]]
        return {"content": content, "variant": VARIANTS[(index // 60) % len(VARIANTS)], "index": "built", "index_seed": 0,
                "ops": ops, "big": True}
    n = rng.choice([0, 1, 1, 2, 3, 4, 5, 6, 8, 12])
    lines = [rng.choice(ALPHABET) for _ in range(n)]
    if index % 11 == 0 and n:
        lines[rng.randrange(n)] = rng.choice(["y" * 8191, "y" * 8192, "y" * 8193, "ž" * 4096 + "z", "w" * 70000,
                                              "€" * 2731])
    if index % 5 == 0:
        lines = [l.replace("\r", "") for l in lines]  # CR-free files: iteration/index mechanisms stay visible
    final_nl = rng.random() < 0.7
    content = "\n".join(lines) + ("\n" if (final_nl and n) else "")
    variant = VARIANTS[index % len(VARIANTS)]
    idx_kind = rng.choice(["built", "built", "list_full", "list_subset", "list_perm", "list_repeat", "file"])
    nops = rng.randint(4, 25)
    ops = []
    for _ in range(nops):
        ops.append([rng.choice(["len", "get", "get", "get", "slice", "slice", "iterable", "list", "it_new", "it_next",
                                "it_next", "it_next", "it2_next", "it_rest", "reopen"]),
                    rng.randrange(1 << 20), rng.randrange(1 << 20), rng.randrange(1 << 20)])
    return {"content": content, "variant": variant, "index": idx_kind, "index_seed": rng.randrange(1 << 30), "ops": ops,
            "path_form": rng.choice([None, None, None, None, "dotdot_after_symlink", "relative"])}


def shrinkable(case):
    def rebuild(ops):
        c = dict(case)
        c["ops"] = ops
        return c
    return list(case["ops"]), rebuild


def describe(case):
    c = case["content"]
    return {"content": c if len(c) < 80 else c[:60] + f"...({len(c)} chars)", "variant": case["variant"],
            "index": case["index"], "ops": [o[0] for o in case["ops"]]}


def reference_lines(content):
    parts = content.split("\n")
    if parts[-1] == "":
        parts.pop()
    return parts


def line_offsets(content):
    offs, pos = [], 0
    data = content.encode("utf-8")
    if not data:
        return []
    while pos < len(data):
        offs.append(pos)
        nl = data.find(b"\n", pos)
        if nl < 0:
            break
        pos = nl + 1
    return offs


def scratch():
    global _SCRATCH
    if _SCRATCH is None:
        _SCRATCH = common.scratch_dir("vf-c11-")
    return _SCRATCH


def classify(want, got, ctx):
    w = repr(want)
    if "\\r" in w and ("\\r" not in repr(got) or got != want):
        return "universal-newlines-cr"
    if ctx.get("iter"):
        if ctx.get("index") in ("list_subset", "list_perm", "list_repeat"):
            return "iteration-ignores-index"
        if ctx.get("interleaved"):
            return "iteration-shares-cursor"
        return "iteration-mismatch"
    return "read-mismatch"


def open_variant(case, path, idx_path):
    import windpyutils.files as wf
    cls = getattr(wf, case["variant"])
    content = case["content"]
    offs = line_offsets(content)
    rng = common.rng_for("c11-index", case["index_seed"])
    kind = case["index"]
    sel = list(range(len(offs)))
    if kind == "list_subset":
        sel = [i for i in sel if rng.random() < 0.6]
    elif kind == "list_perm":
        rng.shuffle(sel)
    elif kind == "list_repeat":
        sel = [rng.choice(sel) for _ in range(len(sel) + 2)] if sel else []
    if kind == "built":
        arg = None
    elif kind == "file":
        # the index read from a file may be a selection or a permutation as well
        if case["index_seed"] % 3 == 1:
            sel = [i for i in sel if rng.random() < 0.6]
        elif case["index_seed"] % 3 == 2:
            rng.shuffle(sel)
        with open(idx_path, "w") as f:
            for i in sel:
                f.write(f"{offs[i]}\n")
        arg = idx_path
        if case["index_seed"] % 2:
            # the index file is older than the data file (the data file was copied / touched / restored from a backup after the
            # index had been written): the index still is what the caller asked for
            st_ = os.stat(path)
            os.utime(idx_path, (st_.st_atime - 3600, st_.st_mtime - 3600))
    else:
        arg = [offs[i] for i in sel]
    ref_all = reference_lines(content)
    ref = [ref_all[i] for i in sel]
    if "Record" in case["variant"]:
        obj = cls(path, _raw_record_class(), arg)
        unwrap = lambda r: r.s
    else:
        obj = cls(path, arg)
        unwrap = lambda r: r
    return obj, ref, unwrap


def run_case(case, res):
    d = scratch()
    path = os.path.join(d, "data.txt")
    idx_path = os.path.join(d, "data.idx")
    with open(path, "wb") as f:
        f.write(case["content"].encode("utf-8"))
    if case.get("path_form") == "dotdot_after_symlink":
        # the file is named through "<link>/../data.txt" where <link> points to a directory elsewhere: the operating system
        # resolves the link first, a lexical normalisation of the path would name another file (a decoy is put there)
        real = os.path.join(d, "elsewhere", "deep")
        os.makedirs(real, exist_ok=True)
        link = os.path.join(d, "lnk")
        if not os.path.islink(link):
            os.symlink(real, link)
        target = os.path.join(d, "elsewhere", "data.txt")
        os.replace(path, target)
        with open(path, "wb") as f:
            f.write(b"decoy line 1\ndecoy line 2\n")
        path = os.path.join(link, "..", "data.txt")
    elif case.get("path_form") == "relative":
        cwd = os.getcwd()
        os.chdir(d)
        try:
            return _run_budgeted(case, res, "data.txt", idx_path)
        finally:
            os.chdir(cwd)
    return _run_budgeted(case, res, path, idx_path)


def _run_budgeted(case, res, path, idx_path):
    if case["content"] == "" and "MemoryMapped" in case["variant"]:
        res.count("skipped_empty_mmap")
        return
    with instr.budget(3_000_000 if not case.get("big") else 40_000_000):
        try:
            _run(case, res, path, idx_path)
        except instr.StepBudgetExceeded:
            raise Violation("operation-does-not-end", "read history exceeded the statement budget", {})


def _run(case, res, path, idx_path):
    obj, ref, unwrap = open_variant(case, path, idx_path)
    n = len(ref)
    ctxb = {"index": case["index"]}

    def cmp(desc, got, want, **ctx):
        res.evaluations += 1
        if got[0] == "ok" and not isinstance(got[1], int):
            try:
                got = ("ok", [unwrap(x) for x in got[1]] if isinstance(got[1], list) else unwrap(got[1]))
            except Exception as e:  # a record object of an unexpected shape
                got = ("ok", f"<unwrap failed: {e!r}>")
        if got != want:
            c = dict(ctxb)
            c.update(ctx)
            mech = classify(want[1] if want[0] == "ok" else None, got[1], c) if want[0] == "ok" and got[0] == "ok" else "read-mismatch"
            raise Violation(mech, f"{case['variant']} (index {case['index']}): {desc} -> {_short(got)}, list semantics give "
                            f"{_short(want)}", {"lines": _short(ref)})

    if len(obj) != n:
        raise Violation("len-mismatch", f"{case['variant']} (index {case['index']}): len -> {len(obj)}, the file has {n} "
                        f"selected lines", {"content": _short(case['content'])})
    obj.open()
    try:
        it1 = it2 = None
        pos1 = pos2 = 0
        reads_since_it = False
        for op, a, b, c in case["ops"]:
            res.count("op_" + op)
            if op == "len":
                cmp("len(f)", outcome(lambda: len(obj)), ("ok", n))
            elif op == "get_abs":
                cmp(f"f[{a}]", outcome(lambda: obj[a]), outcome(lambda: ref[a]))
            elif op == "get":
                i = a % (2 * n + 4) - (n + 2)
                g = outcome(lambda: obj[i])
                cmp(f"f[{i}]", g, outcome(lambda: ref[i]))
                if g[0] == "ok" and "Record" in case["variant"] and b % 3 == 0 and hasattr(g[1], "s"):
                    # the caller changes the record object it was given (without writing anything back): the file, and what later
                    # reads of it return, are what they were
                    g[1].s = g[1].s + "#changed-by-the-caller"
                    res.count("records_changed_by_the_caller_after_reading")
                    cmp(f"f[{i}] again, after the caller changed the record object returned by the first f[{i}]", outcome(lambda: obj[i]),
                        outcome(lambda: ref[i]))
                reads_since_it = True
            elif op == "slice":
                vals = [None, 0, 1, 2, -1, -2, n, n + 2, -n - 1, n // 2, 3]
                sl = slice(vals[a % len(vals)], vals[b % len(vals)], [None, 1, 2, -1, -2, 3][c % 6])
                cmp(f"f[{sl}]", outcome(lambda: obj[sl]), ("ok", ref[sl]))
                reads_since_it = True
            elif op == "iterable" and b % 11 == 10 and n:
                # the selector is produced lazily from reads of the same file (f[(int(...) for ...)] style): a read nested
                # in a read. Run in a helper thread so that a read that blocks for ever is a finding, not a hung check
                rr = common.rng_for("c11-iterable", a)
                sel = [rr.randrange(-n, n) for _ in range(rr.randint(1, 4))]

                def lazy():
                    for i in sel:
                        _ = obj[i]          # a read of the same object while the outer read is in progress
                        yield i
                box = []
                import threading
                t = threading.Thread(target=lambda: box.append(outcome(lambda: obj[lazy()])), name="vf:nested", daemon=True)
                t.start()
                t.join(20)
                if t.is_alive():
                    raise Violation("operation-does-not-end", f"{case['variant']}: f[generator that reads f] did not return within 20 s "
                                    "(a read nested in a read blocks)", {})
                cmp(f"f[generator over {sel} that reads f itself]", box[0], ("ok", [ref[i] for i in sel]))
                reads_since_it = True
            elif op == "iterable":
                if n == 0:
                    continue
                rr = common.rng_for("c11-iterable", a)
                sel = [rr.randrange(-n, n) for _ in range(rr.randint(0, 5))]
                form = b % 5
                arg = [sel, tuple(sel), (i for i in sel), iter(sel), map(int, sel)][form]   # also one-shot iterables
                cmp(f"f[{['list', 'tuple', 'generator', 'iterator', 'map'][form]} {sel}]", outcome(lambda: obj[arg]),
                    ("ok", [ref[i] for i in sel]))
                reads_since_it = True
            elif op == "list":
                cmp("list(f)", outcome(lambda: list(obj)), ("ok", list(ref)), iter=True,
                    interleaved=(it1 is not None or it2 is not None))
                reads_since_it = True
            elif op == "it_new":
                it1, pos1 = iter(obj), 0
                reads_since_it = False
            elif op in ("it_next", "it2_next"):
                if op == "it2_next":
                    if it2 is None:
                        it2, pos2 = iter(obj), 0
                    it, pos = it2, pos2
                else:
                    if it1 is None:
                        it1, pos1 = iter(obj), 0
                    it, pos = it1, pos1
                got = outcome(lambda: next(it))
                want = ("ok", ref[pos]) if pos < n else ("exc", "StopIteration")
                cmp(f"next() #{pos} of an iterator", got, want, iter=True, interleaved=True)
                res.count("interleaved_iterator_steps")
                if op == "it2_next":
                    pos2 += 1
                else:
                    pos1 += 1
            elif op == "it_rest":
                if it1 is None:
                    continue
                cmp(f"rest of the iterator from #{pos1}", outcome(lambda: list(it1)), ("ok", ref[pos1:]), iter=True,
                    interleaved=True)
                it1 = None
            elif op == "reopen" and a % 3 == 1:
                # a shallow copy of the opened object (it shares the handle), the original is dropped and collected; the history goes
                # on through the copy
                import copy
                import gc
                it1 = it2 = None
                o2 = copy.copy(obj)
                obj = o2
                o2 = None
                gc.collect()
                res.count("shallow_copies_with_the_original_dropped")
                if n:
                    cmp(f"f[{b % n}] through a copy.copy of the opened object (the original dropped and collected)", outcome(lambda: obj[b % n]),
                        ("ok", ref[b % n]))
            elif op == "reopen":
                obj.close()
                g = outcome(lambda: obj[0])
                if g != ("exc", "RuntimeError"):
                    raise Violation("closed-file", f"read on a closed file -> {g}, documented RuntimeError", {})
                obj.open()
                it1 = it2 = None
        if getattr(obj, "dirty", False) and "Record" not in case["variant"]:
            raise Violation("dirty-flag", "dirty is True after a read-only history", {})
    finally:
        try:
            obj.close()
        except Exception:
            pass
    if n >= 2:
        res.seen((common.h64(case["content"]), case["variant"], case["index"], common.h64(case["ops"])))


def _short(x):
    r = repr(x)
    return r if len(r) < 300 else r[:200] + f"...({len(r)} chars)"


def plan(tier, seed):
    return seq.std_plan(__import__(MOD, fromlist=["x"]), tier, seed)


def run_shard(spec):
    instr.install(["windpyutils.files"])
    try:
        return seq.std_run_shard(__import__(MOD, fromlist=["x"]), spec)
    finally:
        if _SCRATCH:
            shutil.rmtree(_SCRATCH, ignore_errors=True)


def replay(doc):
    instr.install(["windpyutils.files"])
    try:
        return seq.std_replay(__import__(MOD, fromlist=["x"]), doc)
    finally:
        if _SCRATCH:
            shutil.rmtree(_SCRATCH, ignore_errors=True)


RULE += ' Also (wave 9): record objects changed by the caller after reading (later reads are what the file holds), shallow copies of the opened object with the original dropped and collected.'
