"""
C17 - sorted_combinations is complete and key-ordered; min-combination search exact.

Monitor shape: itertools.combinations brute force as the reference, evaluated on every score vector
over 0..3 up to the tier's length bound (sampled above it) with several monotone keys.
"""
import itertools
from collections import Counter

from vf import common, instr
from vf.common import ShardResult
from vf.seq import outcome

PROP = "C17"
LEVEL = "exploration"
RULE = ("score vectors over 0..3: all vectors up to length 5 (quick) / 6 (thorough), seeded vectors up to length 9 / "
        "12; keys: sum, length, max, constant, lexicographic tuple, sum-of-squares and position-dependent ones (the tuple itself, first element, sum of the first two). Oracle for sorted_combinations: "
        "multiset of yielded combinations == all non-empty index-ordered combinations, each once, keys "
        "non-decreasing, reported key == key(comb) when yield_key; run once with distinct elements and once with the raw (mutually equal) scores as elements. Oracle for "
        "min_combinations_in_interval_iter_sorted: for every interval [a,b) with 0<=a,b<=total+2 the result equals "
        "the brute-force set of combinations with the smallest sum in the interval, each with that sum. "
        "distinct_nontrivial = distinct (vector, key) resp. (vector, interval) cases with >=2 elements.")
ASSUMPTIONS = [
    "elements are mutually orderable (the heap compares combinations on key ties) - documented precondition",
    "keys never decrease when an element is appended (the function's stated assumption); all keys used satisfy it",
    "order among combinations with equal key is not judged",
    "for sorted_combinations the elements are orderable (its heap compares combinations on key ties); for the interval search the elements are an arbitrary payload (dicts, plain objects)",
]
SHARD_TIMEOUT = {"quick": 300, "thorough": 3600}
NSHARDS = 16

KEYS = {
    "sum": lambda c: sum(c),
    "len": lambda c: len(c),
    "max": lambda c: max(c),
    "const": lambda c: 0,
    "lex": lambda c: tuple(sorted(c, reverse=True)) ,
    "sq": lambda c: sum(x * x for x in c),
    # keys that depend on the POSITION of the elements (still never decrease on append): the combination of all
    # elements is not the greatest one
    "tuple": lambda c: tuple(c),
    "first": lambda c: c[0],
    "first2": lambda c: sum(c[:2]),
    # monotone but not additive: the key of an extension says nothing about the order of its siblings
    "spread": lambda c: max(c) - min(c),
    "distinct": lambda c: len(set(c)),
    "maxlen": lambda c: (max(c), len(c)),
    # key objects that implement only `<` (all that sorting, heapq and the library's Comparable protocol ask for)
    "ltonly": lambda c: _LtOnly(sum(c)),
}


class _LtOnly:
    __slots__ = ("v",)

    def __init__(self, v):
        self.v = v

    def __lt__(self, other):
        return self.v < other.v

    def __repr__(self):
        return f"K({self.v})"
# 'lex': appending an element to c can only keep or raise the descending-sorted tuple in lexicographic order? no:
# (3,) -> (3,1) is greater (longer with equal prefix); (1,) -> (3,1) greater. Monotone: yes.


def plan(tier, seed):
    return [{"tier": tier, "seed": seed, "shard": i, "nshards": NSHARDS} for i in range(NSHARDS)]


def vectors(tier, seed):
    full = 6 if tier == "thorough" else 5
    for ln in range(0, full + 1):
        for v in itertools.product(range(4), repeat=ln):
            yield list(v)
    rng = common.rng_for(PROP, seed, "vec")
    top = 12 if tier == "thorough" else 9
    for _ in range(400 if tier == "thorough" else 120):
        ln = rng.randint(full + 1, top)
        yield [rng.choice([0, 0, 1, 1, 2, 3]) for _ in range(ln)]


def check_sorted(vec, keyname, yield_key):
    from windpyutils.generic import sorted_combinations
    key = KEYS[keyname]
    # elements are (score, index) pairs so that index order is visible; the key looks at the scores only
    elems = [(s, i) for i, s in enumerate(vec)]
    kf = lambda comb: key(tuple(e[0] for e in comb))
    # the flag is also given positionally (third parameter), as a caller of the documented signature may
    def consume():
        g = sorted_combinations(elems, kf, yield_key) if len(vec) % 2 else sorted_combinations(elems, kf, yield_key=yield_key)
        if (len(vec) + sum(vec)) % 3 == 1:
            # the caller takes the first results one by one with next() and the rest in a loop: one enumeration, not two
            it = iter(g)
            head = []
            for _ in range(2):
                try:
                    head.append(next(it))
                except StopIteration:
                    break
            return head + list(g)
        return list(g)
    got = outcome(consume)
    if got[0] != "ok":
        return "operation-raised", f"sorted_combinations({vec}, key={keyname}) raised {got[1]}"
    out = got[1]
    combs = [o[0] for o in out] if yield_key else out
    want = Counter()
    for r in range(1, len(elems) + 1):
        for c in itertools.combinations(elems, r):
            want[c] += 1
    if Counter(combs) != want:
        missing = list((want - Counter(combs)).keys())[:3]
        surplus = list((Counter(combs) - want).keys())[:3]
        return "completeness", (f"sorted_combinations({vec}, key={keyname}): missing {missing}, surplus/duplicate "
                                f"{surplus} ({len(combs)} yielded, {sum(want.values())} expected)")
    for c in combs:
        if not isinstance(c, tuple) or [e[1] for e in c] != sorted(e[1] for e in c):
            return "index-order", f"combination {c} is not an index-ordered tuple"
    ks = [kf(c) for c in combs]
    if any(b < a for a, b in zip(ks, ks[1:])):
        return "key-order", f"sorted_combinations({vec}, key={keyname}) keys not non-decreasing: {ks[:20]}"
    if yield_key and any((o[1] < kf(o[0])) or (kf(o[0]) < o[1]) for o in out):
        return "reported-key", f"sorted_combinations({vec}, key={keyname}, yield_key) reports a key != key(comb)"
    return None


def check_sorted_raw(vec, keyname):
    """Elements that compare equal (the raw scores themselves): combinations are index based, so equal elements
    must still give every index combination exactly once."""
    from windpyutils.generic import sorted_combinations
    key = KEYS[keyname]
    limit = 2 ** len(vec) + 5
    got = outcome(lambda: list(itertools.islice(sorted_combinations(list(vec), key), limit)))
    if got[0] != "ok":
        return "operation-raised", f"sorted_combinations({vec}, key={keyname}) raised {got[1]}"
    want = Counter()
    for r in range(1, len(vec) + 1):
        for c in itertools.combinations(vec, r):
            want[c] += 1
    if Counter(got[1]) != want:
        return "completeness", (f"sorted_combinations(elements={vec} (equal values), key={keyname}) yielded {len(got[1])} "
                                f"combinations {got[1][:6]}..., expected {sum(want.values())} (each index combination once)")
    ks = [key(c) for c in got[1]]
    if any(b < a for a, b in zip(ks, ks[1:])):
        return "key-order", f"sorted_combinations(elements={vec}, key={keyname}) keys not non-decreasing"
    return None


def check_interval(vec, a, b, form=None):
    from windpyutils.generic import min_combinations_in_interval_iter_sorted as f
    elems = [f"e{i}" for i in range(len(vec))]
    if form == "str_elements":
        # the elements are the characters of a string, the scores a bytes object / a tuple: sequences like any other
        elems = list("abcdefghijkl"[:len(vec)])
        scores_arg = bytes(vec) if all(isinstance(v, int) and 0 <= v < 256 for v in vec) and len(vec) % 2 else tuple(vec)
        got = outcome(lambda: [(list(c), sc) for c, sc in f("abcdefghijkl"[:len(vec)], scores_arg, a, b)])
    elif (a + b + len(vec)) % 3 == 0:
        # elements are only a payload: they need be neither orderable nor hashable
        class _E:
            __slots__ = ("name",)

            def __init__(self, name):
                self.name = name
        objs = [_E(n) if k % 2 else {"name": n} for k, n in enumerate(elems)]
        name_of = lambda o: o.name if isinstance(o, _E) else o["name"]
        got = outcome(lambda: [([name_of(o) for o in c], sc) for c, sc in f(objs, vec, a, b)])
    else:
        # the argument lists are the caller's: once the result is there the caller re-uses them for something else; a
        # later search with equal scores must not depend on that
        own_scores, own_elems = list(vec), list(elems)
        def call():
            raw = f(own_elems, own_scores, a, b)
            conv = [(list(c), sc) for c, sc in raw]
            if isinstance(raw, list):
                raw.append("the caller goes on using the list it got")     # the result belongs to the caller
            return conv
        got = outcome(call)
        for k in range(len(own_scores)):
            own_scores[k] = own_scores[k] * 3 + 1
        own_elems.reverse()
    sums = {}
    for r in range(1, len(vec) + 1):
        for idx in itertools.combinations(range(len(vec)), r):
            s = sum(vec[i] for i in idx)
            if a <= s < b:
                sums.setdefault(s, []).append([elems[i] for i in idx])
    if sums:
        best = min(sums)
        want = Counter((tuple(c), best) for c in sums[best])
    else:
        want = Counter()
    if got[0] != "ok":
        return "operation-raised", f"min_combinations_in_interval_iter_sorted({vec}, [{a},{b})) raised {got[1]}"
    try:
        gotc = Counter((tuple(c), s) for c, s in got[1])
    except Exception:
        return "interval-search", f"result has unexpected shape: {got[1]!r}"
    if gotc != want:
        return "interval-search", (f"min_combinations_in_interval_iter_sorted(scores={vec}, [{a},{b})) -> "
                                   f"{sorted(gotc)[:6]}, brute force {sorted(want)[:6]}")
    return None


def check_many_elements(n, salt):
    """33-49 elements: the first 200 combinations of the order (monotone, distinct, index-ordered, and every combination of
    up to three elements with a smaller key than the last one yielded is among them); interval search next to the smallest
    score (the answer is known without enumeration)."""
    import random
    from windpyutils.generic import sorted_combinations, min_combinations_in_interval_iter_sorted as f
    rng = random.Random(n * 7919 + salt)
    scores = [rng.randint(5, 60) for _ in range(n)]
    elems = list(range(n))
    if n > 10000:
        # tens of thousands of elements (2**n - 1 combinations is a number of thousands of digits): the first few are still cheap
        with instr.budget(40_000_000):
            try:
                got = outcome(lambda: list(itertools.islice(sorted_combinations(elems, key=lambda c: sum(scores[i] for i in c), yield_key=True), 4)))
            except instr.StepBudgetExceeded:
                return "operation-does-not-end", f"first 4 combinations of {n} elements exceeded the statement budget"
        lo = min(scores)
        nlo = scores.count(lo)
        if got[0] != "ok":
            return "operation-raised", f"sorted_combinations over {n} elements (first 4 taken) raised {got[1]}"
        want_keys = sorted([lo] * nlo + sorted(x for x in scores if x != lo)[:4])[:4] if nlo < 4 else [lo] * 4
        if [k for _, k in got[1]] != want_keys or len({tuple(c) for c, _ in got[1]}) != 4 or \
                any(len(c) != 1 or scores[c[0]] != k for c, k in got[1]):
            return "order", f"first 4 combinations of {n} elements -> {str(got[1])[:200]}, expected single elements with the keys {want_keys}"
        with instr.budget(40_000_000):
            try:
                g = outcome(lambda: [(tuple(c), s_) for c, s_ in f(elems, list(scores), lo, lo + 1)])
            except instr.StepBudgetExceeded:
                return "operation-does-not-end", f"interval search next to the smallest score over {n} elements exceeded the statement budget"
        want = Counter(((i,), lo) for i in range(n) if scores[i] == lo)
        if g[0] != "ok" or Counter(g[1]) != want:
            return "interval-search", f"{n} elements, interval [{lo},{lo + 1}) -> {str(g)[:200]}, expected {len(want)} single elements"
        return None
    with instr.budget(20_000_000):
        try:
            got = outcome(lambda: list(itertools.islice(sorted_combinations(elems, key=lambda c: sum(scores[i] for i in c), yield_key=True), 200)))
        except instr.StepBudgetExceeded:
            return "operation-does-not-end", f"first 200 combinations of {n} elements exceeded the statement budget"
    if got[0] != "ok":
        return "operation-raised", f"sorted_combinations over {n} elements (first 200 taken) raised {got[1]}"
    out = got[1]
    keys = [k for _, k in out]
    combs = [tuple(c) for c, _ in out]
    if len(out) != 200 or keys != sorted(keys) or len(set(combs)) != 200 or any(list(c) != sorted(set(c)) for c in combs) \
            or any(sum(scores[i] for i in c) != k for c, k in zip(combs, keys)):
        return "order", f"first 200 combinations of {n} elements (scores {scores}): not 200 distinct index-ordered combinations in key order"
    last = keys[-1]
    have = set(combs)
    for r in (1, 2, 3):
        for c in itertools.combinations(range(n), r):
            if sum(scores[i] for i in c) < last and c not in have:
                return "order", (f"{n} elements (scores {scores}): combination {c} with key {sum(scores[i] for i in c)} is missing among the "
                                 f"first 200 although the 200th key is {last}")
    lo = min(scores)
    want = Counter(((i,), lo) for i in range(n) if scores[i] == lo)
    with instr.budget(20_000_000):
        try:
            g = outcome(lambda: [(tuple(c), s) for c, s in f(elems, list(scores), lo, lo + 1)])
        except instr.StepBudgetExceeded:
            return "operation-does-not-end", f"interval search next to the smallest score over {n} elements exceeded the statement budget"
    if g[0] != "ok" or Counter(g[1]) != want:
        return "interval-search", f"{n} elements, scores {scores}, interval [{lo},{lo + 1}) -> {str(g)[:200]}, expected {sorted(want)}"
    return None


def run_shard(spec):
    instr.install(["windpyutils.generic"])
    res = ShardResult()
    per = {}

    def report(bad, case):
        per[bad[0]] = per.get(bad[0], 0) + 1
        if per[bad[0]] <= 10:
            res.violation(bad[0], bad[1], {"case": case})

    for i, vec in enumerate(vectors(spec["tier"], spec["seed"])):
        if i % spec["nshards"] != spec["shard"]:
            continue
        res.count("vectors")
        for kn in KEYS:
            if len(vec) > 9 and kn not in ("sum", "max"):
                continue
            for yk in (False, True):
                res.evaluations += 1
                res.count("sorted_combinations_runs")
                if len(vec) >= 2:
                    res.seen(("sc", tuple(vec), kn, yk))
                with instr.budget(50_000_000):
                    try:
                        bad = check_sorted(vec, kn, yk)
                    except instr.StepBudgetExceeded:
                        bad = ("operation-does-not-end", f"sorted_combinations({vec}, {kn}) exceeded the statement budget")
                if bad:
                    report(bad, {"what": "sorted", "vec": vec, "key": kn, "yield_key": yk})
            if len(vec) <= 8:
                res.evaluations += 1
                res.count("sorted_combinations_runs_equal_elements")
                with instr.budget(50_000_000):
                    try:
                        bad = check_sorted_raw(vec, kn)
                    except instr.StepBudgetExceeded:
                        bad = ("operation-does-not-end", f"sorted_combinations(elements={vec}) exceeded the statement budget")
                if bad:
                    report(bad, {"what": "sorted-raw", "vec": vec, "key": kn})
        if len(vec) <= (8 if spec["tier"] == "thorough" else 7):
            total = sum(vec)
            bounds = list(range(0, total + 3))
            for a in [-3, -1, 0.5, total + 0.5] + bounds:          # interval ends below zero and between two sums are intervals too
                for b in (bounds if isinstance(a, int) and a >= 0 else [-1, 0, 1, 1.5, total, total + 1, total + 10]):
                    res.evaluations += 1
                    res.count("interval_searches")
                    if len(vec) >= 2:
                        res.seen(("iv", tuple(vec), a, b))
                    with instr.budget(50_000_000):
                        try:
                            bad = check_interval(vec, a, b)
                        except instr.StepBudgetExceeded:
                            bad = ("operation-does-not-end", f"interval search on {vec} exceeded the statement budget")
                    if bad:
                        report(bad, {"what": "interval", "vec": vec, "a": a, "b": b})
        if len(vec) and len(vec) <= 4 and i % 7 == 0:
            # the same vector shifted far beyond 2**53: sums must stay exact integers
            big = [2 ** 53 + 10 ** 17 * 0 + x for x in vec]
            tot = sum(big)
            cands = sorted({sum(c) for r in range(1, len(big) + 1) for c in itertools.combinations(big, r)})
            for a0 in cands[:6]:
                for (a, b) in ((a0, a0 + 1), (a0 - 1, a0 + 2), (a0 + 1, tot + 1), (0, a0)):
                    res.evaluations += 1
                    res.count("interval_searches_huge_scores")
                    bad = check_interval(big, a, b)
                    if bad:
                        report(bad, {"what": "interval", "vec": big, "a": a, "b": b})
        if len(vec) and len(vec) <= 5 and i % 5 == 2:
            tot = sum(vec)
            for (a, b, form) in ((0, 10 ** 400, None), (-(10 ** 400), tot + 1, None), (1, 10 ** 400, None), (tot, 10 ** 400 + 1, None),
                                 (0, tot + 1, "str_elements"), (1, 2, "str_elements"), (tot, tot + 1, "str_elements")):
                res.evaluations += 1
                res.count("interval_searches_with_huge_bounds_or_string_elements")
                with instr.budget(50_000_000):
                    try:
                        bad = check_interval(vec, a, b, form)
                    except instr.StepBudgetExceeded:
                        bad = ("operation-does-not-end", f"interval search on {vec} exceeded the statement budget")
                if bad:
                    report(bad, {"what": "interval", "vec": vec, "a": a, "b": b, "form": form})
        if i % 23 == 0:
            # many elements, lazily: more combinations than could ever be listed; only the beginning of the order is used
            bad = check_many_elements(33 + i % 40, i)
            res.evaluations += 1
            res.count("runs_with_33_to_72_elements")
            if bad:
                report(bad, {"what": "many", "n": 33 + i % 40, "salt": i})
        if i % 997 == 5:
            bad = check_many_elements(15000 + i % 4000, i)
            res.evaluations += 1
            res.count("runs_with_15000_to_19000_elements")
            if bad:
                report(bad, {"what": "many", "n": 15000 + i % 4000, "salt": i})
        if i % 301 == 0:
            res.sample({"scores": vec, "keys": list(KEYS), "intervals": f"all [a,b) with 0<=a,b<={sum(vec) + 2}"})
    res.count("repo_line_events", instr.S.total)
    return res.as_dict()


def extra_coverage(tier, seed):
    return {"exhaustive": True, "explanation": "all score vectors over 0..3 up to length 5 (quick) / 6 (thorough) "
            "and all intervals up to total+2 are enumerated; longer vectors are sampled"}


def replay(doc):
    instr.install(["windpyutils.generic"])
    c = doc["replay"]["case"]
    if c["what"] == "sorted":
        bad = check_sorted(c["vec"], c["key"], c["yield_key"])
    elif c["what"] == "sorted-raw":
        bad = check_sorted_raw(c["vec"], c["key"])
    elif c["what"] == "many":
        bad = check_many_elements(c["n"], c["salt"])
    else:
        bad = check_interval(c["vec"], c["a"], c["b"], c.get("form"))
    if bad:
        return True, f"reproduced: {bad[0]}: {bad[1]}"
    return False, "agrees with brute force"


RULE += ' Also (wave 9): the first results taken with next() and the rest in a loop over the same object; 15000-19000 elements used lazily.'
