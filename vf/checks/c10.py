"""
C10 - SpanSet operators follow their membership-based definitions for every relation.

Monitor shape: independent brute-force evaluation of the defining formulas, compared with the real
operators on an exhaustively enumerated small universe (all ordered collections of <=2 spans over
endpoints 0..3, all 4x4 relation pairs) plus sampled longer collections.
"""
import itertools
from collections import Counter

from vf import common, instr
from vf.common import ShardResult

PROP = "C10"
LEVEL = "exploration"
RULE = ("span universe: all (s,e) with 0<=s<=e<=3 (10 spans; thorough adds the 6 inverted spans). Operands: every "
        "ordered collection with repeats of length 0..2 (exhaustive: 111 collections x 4 relations), plus seeded "
        "collections of length 3..5; both constructor forms, copies with a re-assigned relation, a span set as the span source, and the no-duplicate-check fast path holding repeats. For every operand pair (all 16 relation pairs): "
        "construction, `in` for every universe span, & | - ^ , <= < == != >= >, isdisjoint/issubset/issuperset "
        "compared with a direct evaluation of the definitions; a sample of operand pairs is also queried by 4 threads at once with forced GIL hand-offs. distinct_nontrivial = distinct (A, relA, B, relB) "
        "operand pairs with both operands non-empty.")
ASSUMPTIONS = [
    "result sets of & | - ^ are compared as multisets of spans (each qualifying span exactly once); their internal "
    "order is not judged",
    "operands built with force_no_dup_check=True store their spans as given (repeats included); the statement about the "
    "operators (`each once`) is checked for them as for any other span set, construction-time de-duplication is not",
    "a span set is immutable: several threads querying one set (first queries overlapping) are ordinary use",
]
SHARD_TIMEOUT = {"quick": 300, "thorough": 3600}
NSHARDS = 16

REL_NAMES = ["exact", "partof", "includes", "overlaps"]


def rel_ref(name, x, y):
    xs, xe = x
    ys, ye = y
    if name == "exact":
        return xs == ys and xe == ye
    if name == "partof":     # x lies inside y
        return ys <= xs and xe <= ye
    if name == "includes":   # x covers y
        return xs <= ys and ye <= xe
    return not (xe < ys or ye < xs)


def construct_ref(spans, rel):
    kept = []
    for x in spans:
        if not any(rel_ref(rel, x, y) for y in kept):
            kept.append(x)
    return kept


def contains_ref(kept, rel, x):
    return any(rel_ref(rel, x, y) for y in kept)


def universe(tier):
    u = [(s, e) for s in range(4) for e in range(s, 4)]
    if tier == "thorough":
        u += [(2, 0), (3, 1), (1, 0), (3, 0), (3, 2), (2, 1)]
    return u


def real_rel(name):
    from windpyutils.structures import span_set as m
    return {"exact": m.SpanSetExactEqRelation, "partof": m.SpanSetPartOfEqRelation,
            "includes": m.SpanSetIncludesEqRelation, "overlaps": m.SpanSetOverlapsEqRelation}[name]()


def make_real(spans, rel, form):
    from windpyutils.structures.span_set import SpanSet
    if form.startswith("copy:"):
        # the test-suite idiom: V = A.copy(); V.eq_relation = R  - A (built with another relation) is queried first,
        # so any membership state shared between A and its copy would be stale for V
        r0 = form.split(":", 1)[1]
        base = SpanSet(list(spans), eq_relation=real_rel(r0))
        probes = [(0, 0), (0, 3), (1, 2), (3, 3), (2, 2)] if all(isinstance(o, (int, float)) for sp in spans for o in sp) else list(spans)[:5]
        for x in probes:
            _ = x in base
        _ = base <= base
        v = base.copy()
        v.eq_relation = real_rel(rel)
        return v
    if form == "from_set":
        # the span iterable is itself a SpanSet (an exact one, e.g. the result of an operator): the new set de-duplicates
        # with its OWN relation
        return SpanSet(SpanSet(list(spans)), eq_relation=real_rel(rel))
    if form == "nocheck":
        # the documented fast path (two sequences, no duplicate check): the spans are stored as given, repeats included
        return SpanSet([s for s, _ in spans], [e for _, e in spans], force_no_dup_check=True, eq_relation=real_rel(rel))
    if form == "pairs_flag":
        # "This parameter is not obeyed when starts contains Iterable of spans": construction de-duplicates all the same
        return SpanSet(list(spans), force_no_dup_check=True, eq_relation=real_rel(rel))
    if form == "pairs":
        return SpanSet(list(spans), eq_relation=real_rel(rel))
    if form == "gen":
        return SpanSet((x for x in spans), eq_relation=real_rel(rel))
    return SpanSet([s for s, _ in spans], [e for _, e in spans], eq_relation=real_rel(rel))


def plan(tier, seed):
    return [{"tier": tier, "seed": seed, "shard": i, "nshards": NSHARDS} for i in range(NSHARDS)]


def operands(tier, seed):
    u = universe(tier)
    base = [()] + [(a,) for a in u] + [(a, b) for a in u for b in u]
    ops = [(c, r) for c in base for r in REL_NAMES]
    rng = common.rng_for(PROP, seed, "long")
    extra = []
    inverted = [(2, 0), (3, 1), (1, 0), (3, 0), (3, 2), (2, 1)]
    for k in range(60 if tier == "quick" else 400):
        ln = rng.randint(3, 5)
        pool = u + inverted if k % 3 == 0 else u       # spans with start > end are spans too (no span is "in" them under some relations)
        extra.append((tuple(rng.choice(pool) for _ in range(ln)), rng.choice(REL_NAMES)))
    return ops, extra, u


def _twin(v):
    """An equal offset that is another object."""
    if isinstance(v, (int, float)):
        return v + 10 ** 6 - 10 ** 6
    if isinstance(v, tuple):
        return tuple(list(v))
    if isinstance(v, str):
        return "".join(list(v))
    if isinstance(v, _Scalar):
        return _Scalar(v.x)
    return v


# order preserving maps of the small integer offsets into other totally ordered types: a span is a pair of offsets of ANY such
# type (positions as (line, column) pairs, zero padded strings, fractions)
def _as_line_col(x):
    return (x // 2, x % 2)


def _as_padded_str(x):
    return f"{x:03d}"


def _as_fraction(x):
    from fractions import Fraction
    return Fraction(x, 3)


class _Truth:
    """The result of comparing two array-scalar-like offsets: a truth value that is no builtin bool (like numpy.bool_)."""
    __slots__ = ("v",)

    def __init__(self, v):
        self.v = bool(v)

    def __bool__(self):
        return self.v

    def __repr__(self):
        return f"Truth({self.v})"


class _Scalar:
    """An offset whose comparisons answer with _Truth objects (a numpy scalar behaves like that)."""
    __slots__ = ("x",)

    def __init__(self, x):
        self.x = x

    def __lt__(self, o):
        return _Truth(self.x < o.x)

    def __le__(self, o):
        return _Truth(self.x <= o.x)

    def __gt__(self, o):
        return _Truth(self.x > o.x)

    def __ge__(self, o):
        return _Truth(self.x >= o.x)

    def __eq__(self, o):
        return _Truth(isinstance(o, _Scalar) and self.x == o.x)

    def __ne__(self, o):
        return _Truth(not (isinstance(o, _Scalar) and self.x == o.x))

    def __hash__(self):
        return hash(self.x)

    def __repr__(self):
        return f"s{self.x}"


OFFSET_TYPES = [("(line, column) pairs", _as_line_col), ("zero padded strings", _as_padded_str), ("fractions", _as_fraction),
                ("array-scalar-like numbers whose comparisons return truth objects that are no bools", _Scalar)]


def check_pair(a_spans, a_rel, b_spans, b_rel, form, u, res):
    """Returns None or (mechanism, summary)."""
    A = make_real(a_spans, a_rel, form)
    B = make_real(b_spans, b_rel, "pairs" if form not in ("pairs",) and not form.startswith("copy:") else
                  ("two_seq" if form == "pairs" else form))
    if form == "from_set":
        ka, kb = construct_ref(construct_ref(a_spans, "exact"), a_rel), construct_ref(b_spans, b_rel)
    elif form == "nocheck":
        ka, kb = list(a_spans), construct_ref(b_spans, b_rel)
    elif form.startswith("copy:"):
        r0 = form.split(":", 1)[1]
        ka, kb = construct_ref(a_spans, r0), construct_ref(b_spans, r0)   # stored spans were de-duplicated with r0
    else:
        ka, kb = construct_ref(a_spans, a_rel), construct_ref(b_spans, b_rel)
    n = 0
    if list(A) != ka or len(A) != len(ka):
        return "construction", f"SpanSet({list(a_spans)}, {a_rel}) holds {list(A)}, definition keeps {ka}"
    if list(B) != kb:
        return "construction", f"SpanSet({list(b_spans)}, {b_rel}) holds {list(B)}, definition keeps {kb}"
    for x in u:
        n += 1
        x = (_twin(x[0]), x[1])       # an equal span, not the identical tuple
        if (x in A) != contains_ref(ka, a_rel, x):
            return "membership", f"{x} in SpanSet({ka}, {a_rel}) -> {x in A}"
    ina = lambda x: contains_ref(ka, a_rel, x)
    inb = lambda x: contains_ref(kb, b_rel, x)
    chain = list(itertools.chain(ka, kb))
    defs = {
        "&": (lambda x: ina(x) and inb(x), lambda: A & B),
        "|": (lambda x: ina(x) or inb(x), lambda: A | B),
        "-": (lambda x: ina(x) and not inb(x), lambda: A - B),
        "^": (lambda x: ina(x) != inb(x), lambda: A ^ B),
    }
    for sym, (pred, real) in defs.items():
        n += 1
        want = Counter(set(x for x in chain if pred(x)))
        got = real()
        gl = list(got)
        if Counter(gl) != want:
            return "set-operator", (f"SpanSet({ka},{a_rel}) {sym} SpanSet({kb},{b_rel}) -> {gl}, "
                                    f"definition gives {sorted(want)}")
        for x in u:  # the result is a plain (exact) set
            if (x in got) != (x in want):
                return "set-operator", f"result of {sym} answers `{x} in result` -> {x in got}, exact membership expected"
    le_ab = all(inb(x) for x in ka)
    le_ba = all(ina(x) for x in kb)
    eq = le_ab and le_ba
    cmp_defs = [
        ("<=", lambda: A <= B, le_ab), ("<", lambda: A < B, le_ab and not eq), ("==", lambda: A == B, eq),
        ("!=", lambda: A != B, not eq), (">=", lambda: A >= B, le_ba), (">", lambda: A > B, le_ba and not eq),
        ("issubset", lambda: A.issubset(B), le_ab), ("issuperset", lambda: A.issuperset(B), le_ba),
        ("isdisjoint", lambda: A.isdisjoint(B), all(not ina(x) for x in kb)),
        ("isdisjoint(list)", lambda: A.isdisjoint(list(b_spans)), all(not ina(x) for x in b_spans)),
    ]
    le_aa = all(ina(x) for x in ka)         # a stored span need not be "in" its own set (start > end under Overlaps)
    cmp_defs += [("<= (the set with itself)", lambda: A <= A, le_aa), ("== (the set with itself)", lambda: A == A, le_aa),
                 (">= (the set with itself)", lambda: A >= A, le_aa), ("< (the set with itself)", lambda: A < A, False),
                 ("isdisjoint (the set with itself)", lambda: A.isdisjoint(A), all(not ina(x) for x in ka))]
    for sym, real, want in cmp_defs:
        n += 1
        got = real()
        if got is not want and got != want:
            return "comparison", f"SpanSet({ka},{a_rel}) {sym} SpanSet({kb},{b_rel}) -> {got}, definition gives {want}"
    res.evaluations += n
    return None


def concurrent_first_queries(a_spans, a_rel, b_spans, b_rel, u, nthreads=4):
    """Fresh span sets shared by several threads whose FIRST queries overlap; the line monitor forces a GIL hand-off
    every second statement of repository code."""
    import threading
    A = make_real(a_spans, a_rel, "pairs")
    B = make_real(b_spans, b_rel, "pairs")
    ka, kb = construct_ref(a_spans, a_rel), construct_ref(b_spans, b_rel)
    ina = lambda x: contains_ref(ka, a_rel, x)
    inb = lambda x: contains_ref(kb, b_rel, x)
    chain = list(itertools.chain(ka, kb))
    bad = []
    barrier = threading.Barrier(nthreads)

    def work(tid):
        barrier.wait()
        try:
            order = list(u)[tid:] + list(u)[:tid]
            for x in order:
                if (x in A) != ina(x) and len(bad) < 3:
                    bad.append(f"thread {tid}: {x} in A -> {not ina(x)}")
            checks = [("A<=B", lambda: A <= B, all(inb(x) for x in ka)), ("A.isdisjoint(B)", lambda: A.isdisjoint(B), all(not ina(x) for x in kb)),
                      ("A&B", lambda: Counter(A & B), Counter(set(x for x in chain if ina(x) and inb(x)))),
                      ("A-B", lambda: Counter(A - B), Counter(set(x for x in chain if ina(x) and not inb(x))))]
            for name, fn, want in checks[tid % 2::1]:
                got = fn()
                if got != want and len(bad) < 3:
                    bad.append(f"thread {tid}: {name} -> {got}, definition gives {want}")
        except Exception as e:      # an exception in one reader is a finding as well
            if len(bad) < 3:
                bad.append(f"thread {tid}: {type(e).__name__}: {e}")
    instr.start_case(plan={}, trace=False, yield_every=2)
    try:
        ts = [threading.Thread(target=work, args=(t,), name=f"vf:t{t}") for t in range(nthreads)]
        for t in ts:
            t.start()
        for t in ts:
            t.join(60)
    finally:
        instr.stop_case()
        instr.S.yield_every = 0
    if bad:
        return "concurrent-readers", (f"A=SpanSet({list(a_spans)},{a_rel}), B=SpanSet({list(b_spans)},{b_rel}) shared by {nthreads} "
                                      "threads (first queries overlapping): " + "; ".join(bad))
    return None


def big_spans(seed, shard, bi, which):
    r = common.rng_for(PROP, seed, "big", shard, bi, which)
    n = r.randint(64, 160)
    spans = []
    for i in range(n):
        st = 10 * i + r.choice([0, 0, 1, 2])
        spans.append((st, st + r.choice([0, 3, 6, 6, 8, 12])))
        if r.random() < 0.15:
            spans.append((st + 1, st + 2))          # nested in / overlapping the previous one
    r.shuffle(spans)
    return spans


def check_big(sa, rel, sb, rel_b, res):
    """Two large operands against the definitions. Returns None or (mechanism, summary)."""
    sa, sb = [tuple(x) for x in sa], [tuple(x) for x in sb]
    A, B = make_real(sa, rel, "pairs"), make_real(sb, rel_b, "two_seq")
    ka, kb = construct_ref(sa, rel), construct_ref(sb, rel_b)
    if list(A) != ka or list(B) != kb:
        return "construction", f"a SpanSet of {len(sa)} spans under {rel} keeps {len(list(A))} spans, the definition keeps {len(ka)}"
    qs = []
    for (s0, e0) in ka[::3] + kb[::5]:
        qs += [(s0, e0), (s0, e0 - 1), (s0 + 1, e0), (s0, e0 + 1), (s0 - 1, e0), (s0 + 1, e0 - 1), (s0 - 1, e0 + 1)]
    for x in qs:
        res.evaluations += 1
        if (x in A) != contains_ref(ka, rel, x):
            return "membership", (f"{x} in a SpanSet of {len(ka)} spans under {rel} -> {x in A}; stored spans near it: "
                                  f"{[y for y in ka if abs(y[0] - x[0]) <= 12]}")
    ina = lambda x: contains_ref(ka, rel, x)
    inb = lambda x: contains_ref(kb, rel_b, x)
    chain = ka + kb
    for sym, pred, real in (("&", lambda x: ina(x) and inb(x), lambda: A & B), ("-", lambda x: ina(x) and not inb(x), lambda: A - B),
                            ("|", lambda x: ina(x) or inb(x), lambda: A | B), ("^", lambda x: ina(x) != inb(x), lambda: A ^ B)):
        res.evaluations += 1
        want = Counter(set(x for x in chain if pred(x)))
        gl = list(real())
        if Counter(gl) != want:
            return "set-operator", (f"two large sets ({len(ka)} spans under {rel}, {len(kb)} under {rel_b}): {sym} yields {len(gl)} spans, "
                                    f"the definition {sum(want.values())}; differing: {sorted((Counter(gl) - want) + (want - Counter(gl)))[:6]}")
    le_ab = all(inb(x) for x in ka)
    dis = all(not ina(x) for x in kb)
    if (A <= B) != le_ab or A.isdisjoint(B) != dis:
        return "comparison", (f"two large sets ({len(ka)} spans under {rel}, {len(kb)} under {rel_b}): <= -> {A <= B} (definition {le_ab}), "
                              f"isdisjoint -> {A.isdisjoint(B)} (definition {dis})")
    return None


def run_shard(spec):
    instr.install(["windpyutils.structures.span_set"])
    res = ShardResult()
    ops, extra, u = operands(spec["tier"], spec["seed"])
    rng = common.rng_for(PROP, spec["seed"], "shard", spec["shard"])
    forms = ["pairs", "two_seq", "gen", "pairs", "two_seq", "gen", "copy:exact", "copy:overlaps", "copy:partof", "copy:includes", "from_set", "from_set",
             "nocheck", "nocheck", "pairs_flag"]
    per_mech = {}
    idx = 0
    nconc = 0

    def do(a, b, exhaustive):
        nonlocal idx
        form = forms[(idx // 3) % len(forms)] if idx % 3 == 0 else forms[idx % 3]
        res.count("operand_pairs")
        if exhaustive:
            res.count("operand_pairs_exhaustive_part")
        try:
            bad = check_pair(a[0], a[1], b[0], b[1], form, u, res)
        except Exception as e:
            bad = ("operation-raised", f"{type(e).__name__}: {e} for A={a}, B={b}")
        if a[0] and b[0]:
            res.seen((a, b))
        if not bad and idx % 13 == 0 and a[0]:
            # the same operands as epoch-second timestamps (large floats one unit apart): relations are exact comparisons
            sh = lambda spans: tuple((1.7e9 + s, 1.7e9 + e) for s, e in spans)
            try:
                bad = check_pair(sh(a[0]), a[1], sh(b[0]), b[1], form, [(1.7e9 + s, 1.7e9 + e) for s, e in u], res)
            except Exception as e:
                bad = ("operation-raised", f"{type(e).__name__}: {e} for A={a}, B={b} shifted by 1.7e9")
            if bad:
                bad = (bad[0], "[offsets shifted by 1.7e9 as floats] " + bad[1])
            res.count("operand_pairs_with_large_float_offsets")
        if not bad and idx % 13 in (4, 9) and a[0]:
            tname, tf = OFFSET_TYPES[(idx // 13) % len(OFFSET_TYPES)]
            sh = lambda spans: tuple((tf(s), tf(e)) for s, e in spans)
            try:
                bad = check_pair(sh(a[0]), a[1], sh(b[0]), b[1], form, [(tf(s), tf(e)) for s, e in u], res)
            except Exception as e:
                bad = ("operation-raised", f"{type(e).__name__}: {e} for A={a}, B={b} with offsets as {tname}")
            if bad:
                bad = (bad[0], f"[offsets as {tname}] " + bad[1])
            res.count("operand_pairs_with_offsets_of_another_ordered_type")
        nonlocal nconc
        if not bad and len(a[0]) >= 2 and b[0] and nconc < (60 if spec["tier"] == "quick" else 1500) and idx % 7 == 0:
            nconc += 1
            res.count("concurrent_reader_runs")
            res.evaluations += len(u) + 2
            cb = concurrent_first_queries(a[0], a[1], b[0], b[1], u)
            if cb:
                per_mech[cb[0]] = per_mech.get(cb[0], 0) + 1
                if per_mech[cb[0]] <= 10:
                    res.violation(cb[0], cb[1], {"case": {"a": [list(a[0]), a[1]], "b": [list(b[0]), b[1]], "form": "pairs",
                                                          "tier": spec["tier"], "threads": True}})
        if bad:
            per_mech[bad[0]] = per_mech.get(bad[0], 0) + 1
            if per_mech[bad[0]] <= 10:
                res.violation(bad[0], bad[1], {"case": {"a": [list(a[0]), a[1]], "b": [list(b[0]), b[1]],
                                                        "form": form, "tier": spec["tier"],
                                                        "shift": 1.7e9 if bad[1].startswith("[offsets shifted") else 0,
                                                        "otype": (idx // 13) % len(OFFSET_TYPES) if bad[1].startswith("[offsets as") else None}})
        elif idx % 20011 == 0:
            res.sample({"A": list(a[0]), "relA": a[1], "B": list(b[0]), "relB": b[1], "form": form})

    # exhaustive part: all pairs of small operands; quick tier thins B by a fixed stride per A (every A and every
    # B still occurs, every relation pair occurs), thorough runs the full product
    stride = 1 if spec["tier"] == "thorough" else 2
    for ai, a in enumerate(ops):
        for bi in range((ai * 3) % stride, len(ops), stride):
            if idx % spec["nshards"] == spec["shard"]:
                do(a, ops[bi], stride == 1)
            idx += 1
    for a in extra:
        for _ in range(40):
            b = rng.choice(ops) if rng.random() < 0.5 else rng.choice(extra)
            if idx % spec["nshards"] == spec["shard"]:
                do(a, b, False)
                do(b, a, False)
            idx += 1
    # one long-lived operand compared with hundreds of short-lived ones (temporaries are freed at once, their addresses are
    # re-used by the next ones): an answer must never depend on the identity of an operand that no longer exists; the same
    # through copies of the long-lived operand (copy.deepcopy / pickle round trip)
    import copy
    import pickle
    for li in range(3):
        la = rng.choice(extra) if li else rng.choice([o for o in ops if len(o[0]) == 2])
        A = make_real(la[0], la[1], "pairs")
        variants = [("the long-lived set", A), ("its deepcopy", copy.deepcopy(A)), ("its pickle round trip", pickle.loads(pickle.dumps(A)))]
        ka = construct_ref(la[0], la[1])
        ina = lambda x: contains_ref(ka, la[1], x)
        for bi in range(120):
            b = ops[(spec["shard"] * 131 + li * 977 + bi * 37) % len(ops)]
            kb = construct_ref(b[0], b[1])
            inb = lambda x: contains_ref(kb, b[1], x)
            le_ab, le_ba = all(inb(x) for x in ka), all(ina(x) for x in kb)
            for vname, AV in variants[:1 + (bi % 3 == 0) * 2]:
                B = make_real(b[0], b[1], "pairs")
                got = (AV <= B, AV >= B, AV == B, AV.isdisjoint(B), AV < B)
                want = (le_ab, le_ba, le_ab and le_ba, all(not ina(x) for x in kb), le_ab and not (le_ab and le_ba))
                del B
                res.evaluations += 5
                if got != want:
                    per_mech["comparison"] = per_mech.get("comparison", 0) + 1
                    if per_mech["comparison"] <= 10:
                        res.violation("comparison", f"{vname} SpanSet({ka},{la[1]}) compared with the {bi + 1}-th temporary SpanSet({kb},{b[1]}): "
                                      f"(<=, >=, ==, isdisjoint, <) -> {got}, definitions give {want}",
                                      {"case": {"a": [list(la[0]), la[1]], "b": [list(b[0]), b[1]], "form": "pairs", "tier": spec["tier"]}})
        res.count("long_lived_operands")
    # large sets (64-160 stored spans): membership of spans that share an end point with a stored span, and the operators
    # between two large sets, against the definitions
    for bi in range(4 if spec["tier"] == "quick" else 24):
        rel = REL_NAMES[(bi + spec["shard"]) % 4]
        rel_b = REL_NAMES[(bi // 4 + spec["shard"] // 4) % 4]
        sa, sb = big_spans(spec["seed"], spec["shard"], bi, 0), big_spans(spec["seed"], spec["shard"], bi, 1)
        try:
            bad = check_big(sa, rel, sb, rel_b, res)
        except Exception as e:
            bad = ("operation-raised", f"{type(e).__name__}: {e} for two large sets under {rel} / {rel_b}")
        if bad:
            res.violation(bad[0], bad[1], {"case": {"a": [sa, rel], "b": [sb, rel_b], "form": "pairs", "tier": spec["tier"], "big": True}})
        res.count("large_operand_pairs")
    res.count("repo_line_events", instr.S.total)
    return res.as_dict()


def extra_coverage(tier, seed):
    return {"exhaustive": tier == "thorough",
            "explanation": "thorough: full product of all 444 small operands (length<=2, 4 relations) is enumerated; "
                           "quick: every operand appears as A with every 2nd operand as B"}


def replay(doc):
    instr.install(["windpyutils.structures.span_set"])
    c = doc["replay"]["case"]
    sh = c.get("shift", 0)
    a = (tuple((sh + s, sh + e) if sh else (s, e) for s, e in c["a"][0]), c["a"][1])
    b = (tuple((sh + s, sh + e) if sh else (s, e) for s, e in c["b"][0]), c["b"][1])
    if c.get("big"):
        bad = check_big(c["a"][0], c["a"][1], c["b"][0], c["b"][1], ShardResult())
    elif c.get("otype") is not None:
        tf = OFFSET_TYPES[c["otype"]][1]
        sh_ = lambda spans: tuple((tf(s_), tf(e_)) for s_, e_ in spans)
        bad = check_pair(sh_(a[0]), a[1], sh_(b[0]), b[1], c["form"], [(tf(s_), tf(e_)) for s_, e_ in universe(c.get("tier", "thorough"))], ShardResult())
    elif c.get("threads"):
        bad = None
        for _ in range(30):
            bad = bad or concurrent_first_queries(a[0], a[1], b[0], b[1], universe(c.get("tier", "thorough")))
    else:
        uni = universe(c.get("tier", "thorough"))
        bad = check_pair(a[0], a[1], b[0], b[1], c["form"], [(sh + s, sh + e) for s, e in uni] if sh else uni, ShardResult())
    if bad:
        return True, f"reproduced: {bad[0]}: {bad[1]}"
    return False, "operand pair agrees with the definitions"


RULE += ' Also (wave 9): the operand pairs with offsets mapped order-preservingly to (line, column) pairs, zero padded strings and fractions; pairs of sets of 64-160 spans (membership of spans sharing an end point with a stored span, all operators, <=, isdisjoint).'
