"""
C05 - FunctorMap and mul_p_map return map(f, data) in input order.

Monitor shape: the yield-history checker of C01 (unique call-tagged items) on FunctorMap(f)(data,
chunk) and on the list returned by mul_p_map, the quiescence oracle for termination, sequences of
calls on one FunctorMap / repeated mul_p_map calls in one process (its queues are class-level and
survive calls). Reach: per-item functor delays that realise designated arrival orders at the reorder
buffer + delay sweep over every executed statement of FunctorMap.__call__/__exit__, the worker
loops, mul_p_map and FunRunner.run.
"""
from vf import pool_checks

PROP = "C05"
LEVEL = "exploration"
RULE = ("base cases: FunctorMap with workers 1-5 and 1-4 fully consumed calls (lengths 0, 1, <workers, up to 60; chunk "
        "sizes 1-9; list/generator/slow/deque/integer-indexed-sequence inputs; one base with a 6.5 s idle period between two calls (12-31 s in thorough); results of 16 bytes or of 70-200 kB each, i.e. larger than the result pipe) or 1-3 mul_p_map calls in one process (workers 1-5, lengths 0-40); "
        "per-item functor delays that make each chunk in turn the slowest, reverse the arrival order or alternate. Each "
        "base case: dry run, one run per (executed statement, occurrence) with a 120 ms delay in parent and worker "
        "code, random 2-3 delay combinations, forced GIL hand-offs. Oracles: returned sequence == [f(x)] per call "
        "(call-tagged unique items), no exception, quiescence oracle. distinct_nontrivial = distinct (base case, "
        "thread-switch-pair set, plan size); distinct chunk arrival orders seen are counted from the worker log."
        " Also: items of 1.6 s at the tail of the input, all generators of a map created before the first is consumed, calls made from a side thread, one-shot iterators, list items, array-like inputs, twin items.")
ASSUMPTIONS = [
    "fork start method (both APIs take closures and rely on fork); functors return normally; generators fully consumed",
    "hangs are decided by the quiescence oracle; the hard wall limit yields INCONCLUSIVE",
]
NBASES = {"quick": 16, "thorough": 160}
SHARD_TIMEOUT = {"quick": 400, "thorough": 3000}
MOD = "vf.checks.c05"
MODULES = ["windpyutils.parallel.pools", "windpyutils.parallel.maps", "windpyutils.parallel.workers", "windpyutils.buffers"]
SWEEP_PREFIXES = ["FunctorMap", "FunctorWorker", "mul_p_map", "FunRunner", "Buffer"]
WORKER_QUALNAMES = ("FunctorWorker.run", "FunRunner.run")
SHARD_BUDGET_S = {"quick": 80, "thorough": 1500}


def gen_base(rng, tier, index):
    if index == 15 or (tier == "thorough" and index % 40 == 15):
        # the caller is idle for several seconds between two calls / while it holds an open map: workers must still be there
        pause = 6.5 if tier == "quick" else rng.choice([6.5, 12.0, 31.0])
        return {"kind": "fmap", "pool": "fmap", "workers": 2, "no_sweep": True, "limit_factor": 3,
                "calls": [{"ordered": True, "n": 6, "chunk": 2, "form": "list", "pause_after": pause},
                          {"ordered": True, "n": 9, "chunk": 1, "form": "gen"}]}
    if index in (13, 14) or (tier == "thorough" and index % 40 in (13, 14)):
        # items that take longer than any plausible internal polling interval, at the tail of the input: one worker is
        # still computing while the others have already taken their stop order and exited
        kind = "fmap" if index % 40 == 13 else "mulpmap"
        t = 1.6 if tier == "quick" else rng.choice([1.6, 3.2])
        return {"kind": kind, "pool": kind, "workers": 2, "no_sweep": True, "limit_factor": 2,
                "calls": [{"ordered": True, "n": 6, "chunk": 1, "form": "list",
                           "durations": {"mode": "slow_chunk", "t": t, "chunk": 5, "phase": 0, "nchunks": 6}},
                          {"ordered": True, "n": 3, "chunk": 1, "form": "gen", "durations": {"mode": "all", "t": t}}]}
    if index in (6, 9) or (tier == "thorough" and index % 40 in (6, 9)):
        # workers that are held up for longer than a second (descheduled, swapped out) at any point of their loop, also after
        # their last result: a later call on the same queues still gets all its results
        kind = "mulpmap" if index % 40 == 6 else "fmap"
        return {"kind": kind, "pool": kind, "workers": 1 if (index // 40) % 2 == 0 and kind == "mulpmap" else 2, "limit_factor": 2,
                "long_delay": 1.3 if tier == "quick" else rng.choice([1.3, 2.4]), "budget_s": 200,
                "calls": [{"ordered": True, "n": 4, "chunk": 1, "form": "list"}, {"ordered": True, "n": 3, "chunk": 1, "form": "gen"}]}
    kind = "mulpmap" if index % 3 == 2 else "fmap"
    workers = rng.choice([1, 2, 2, 3, 4, 5])
    ncalls = rng.randint(1, 4) if kind == "fmap" else rng.randint(1, 3)
    calls = []
    for ci in range(ncalls):
        chunk = rng.choice([1, 1, 2, 3, 5, 9]) if kind == "fmap" else 1
        pick = rng.randrange(6)
        if pick == 0:
            n = 0
        elif pick == 1:
            n = 1
        elif pick == 2:
            n = rng.randint(1, max(1, workers - 1))
        else:
            n = rng.randint(2, 60 if kind == "fmap" else 40)
        call = {"ordered": True, "n": n, "chunk": chunk, "form": rng.choice(["list", "list", "gen", "iter", "slow", "deque", "intseq", "array_like", "hinted"]), "list_items": rng.random() < 0.25,
                "salt": rng.randrange(1000)}
        if call["form"] == "slow":
            call["slow"] = {"before": {str(rng.randrange(max(1, n))): 0.03} if n else {}, "stop": rng.choice([0, 0.05])}
        nchunks = max(1, -(-n // chunk))
        dm = rng.choice([None, "slow_chunk", "slow_chunk", "alternate", "decreasing", "hash"])
        if dm and n:
            call["durations"] = {"mode": dm, "t": rng.choice([0.01, 0.03, 0.06]),
                                 "chunk": rng.choice([0, 0, nchunks - 1, nchunks // 2]), "phase": rng.randrange(2),
                                 "nchunks": nchunks}
        if index % 5 == 3 and n:
            call["twins"] = True                    # 1 / 1.0 style inputs: equal, same hash, different for f
            call.pop("durations", None)
        elif index % 5 == 4 and n:
            call["exc_results"] = True              # f returns exception objects as ordinary values
            call.pop("durations", None)
        if index % 4 == 1 and n and not (call.get("twins") or call.get("exc_results")):
            # results larger than a pipe buffer (64 KiB): workers cannot finish before somebody reads
            call["result_size"] = rng.choice([70_000, 200_000])
            call["n"] = min(n, 8)
        calls.append(call)
    # combinations that must not depend on the luck of the draw (every 16 bases): results larger than a pipe buffer through
    # both APIs, exception objects and twin items through mul_p_map
    if index % 16 in (3, 10) and calls:
        # "everything in one chunk" spelled as a huge chunk size; an input whose length hint is too large
        calls[0].update(chunk=calls[0]["n"] + 5, chunk_special=["maxsize", "huge", "inf"][(index // 16 + index) % 3], form="hinted")
        calls[0].pop("durations", None)
    if index % 16 == 4 and calls and kind == "fmap":
        calls[0]["n"] = max(calls[0]["n"], 4)
        calls[0]["first_next_in_thread"] = True     # the first result taken by a helper thread, the rest by the caller
    if index % 16 == 7 and calls:
        calls[0].update(form="callable_iter", n=max(calls[0]["n"], 4))       # an iterable that is callable as well
        calls[0].pop("slow", None)
    if index % 16 == 2 and calls:
        # an input whose __length_hint__ over-estimates, through mul_p_map (base 2) as well
        calls[0].update(form="hinted", n=max(calls[0]["n"], 5))
        calls[0].pop("slow", None)
    forced = {1: ("fmap", {"result_size": 200_000}), 5: ("mulpmap", {"result_size": 200_000}), 11: ("mulpmap", {"exc_results": True}),
              8: ("mulpmap", {"twins": True})}.get(index % 16)
    if forced and forced[0] == kind:
        first = {"ordered": True, "n": 8 if "result_size" in forced[1] else 12, "chunk": 1, "form": "list", "salt": 7}
        first.update(forced[1])
        calls = [first] + calls[:2]
        workers = max(2, min(workers, 3))
    return {"kind": kind, "pool": kind, "workers": workers, "calls": calls,
            # all generators of a FunctorMap created first and consumed one after the other; the calls made from a thread
            # other than the main one
            "create_all_first": kind == "fmap" and index % 4 == 3, "side_thread": index % 4 == 2,
            "many_fds": 1100 if index % 8 in (1, 6) else 0}      # the caller already holds more than FD_SETSIZE descriptors


def owns(kind, mech, case, result):
    return kind in ("value", "deadlock", "driver")


def observe(case, result, res):
    # arrival order of chunks at the consumer side is decided by the order in which workers finish; the order in
    # which chunks were *started* is visible in the log
    for ci, call in enumerate(case["calls"]):
        order = []
        for e in result.get("events", []):
            if e["ev"] == "item" and e.get("call") == ci and e["idx"] % call["chunk"] == 0:
                order.append(e["idx"] // call["chunk"])
        if len(order) >= 2:
            res.add_to("chunk_start_orders", f"{case['kind']}:{order[:10]}")
    res.count("calls_completed", sum(1 for c in result.get("calls", []) if c.get("completed")))


def plan(tier, seed):
    return pool_checks.plan(__import__(MOD, fromlist=["x"]), tier, seed)


def run_shard(spec):
    return pool_checks.run_shard(__import__(MOD, fromlist=["x"]), spec)


def replay(doc):
    return pool_checks.replay(__import__(MOD, fromlist=["x"]), doc)


RULE += ' Also (waves 8-9): workers held up for 1.3 s (2.4 s) at the k-th execution of every statement of their loop followed by a second call, huge / infinite chunk sizes, inputs whose __length_hint__ over-estimates, iterables that are callable as well, a generator used by two threads one after the other.'
