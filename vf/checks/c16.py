"""
C16 - ImmutIntervalMap returns the value of the one interval containing the key.

Monitor shape: linear-scan reference over the defining dict, evaluated on exhaustively enumerated
small interval sets (grid 0..4 with half steps) and sampled larger ones.
"""
import itertools

from vf import common, instr
from vf.common import ShardResult
import sys

from vf.seq import outcome as _outcome


def outcome(fn, *a, **k):
    # the library runs under the interpreter's default limit for int -> str conversion (4300 digits); the harness formats its own
    # messages without one (some probes have 5001 digits)
    sys.set_int_max_str_digits(4300)
    try:
        return _outcome(fn, *a, **k)
    finally:
        sys.set_int_max_str_digits(0)

PROP = "C16"
LEVEL = "exploration"
RULE = ("interval sets: every ordered selection of <=3 (quick) / <=4 (thorough) distinct intervals with integer ends in 0..4 "
        "(valid, degenerate and inverted), in both insertion orders, plus seeded sets of 3..6 intervals on a "
        "half-step grid (touching, nested, shuffled) and sets at large magnitudes (1e9, 1.7e12, 2**53) with unit gaps; the dict the map was built from is mutated right after construction. Oracle: construction succeeds iff all start<=end and no two "
        "closed intervals share a point, else KeyError and only KeyError; for every grid point, midpoint and outside "
        "point lookup == linear scan, `in` agrees (the same map object is probed ascending, descending and in 3 shuffled orders with hits and misses interleaved), len, ascending iteration. distinct_nontrivial = distinct interval "
        "sets with >=2 intervals.")
ASSUMPTIONS = ["keys and interval ends are ints / binary-exact half steps (no float rounding in the reference)",
               "beyond the property's quantifier (inputs only): a sample of valid maps is additionally shared by 4 threads "
               "whose first lookups overlap, with forced GIL hand-offs - an immutable map must not depend on who looks first"]
SHARD_TIMEOUT = {"quick": 300, "thorough": 3600}
NSHARDS = 16


def plan(tier, seed):
    return [{"tier": tier, "seed": seed, "shard": i, "nshards": NSHARDS} for i in range(NSHARDS)]


def valid(intervals):
    if any(s > e for s, e in intervals):
        return False
    for (a, b), (c, d) in itertools.combinations(intervals, 2):
        if not (b < c or d < a):
            return False
    return True


def check_case(intervals, probes):
    """intervals: list of (start, end) in insertion order (distinct). Returns None or (mechanism, summary)."""
    from windpyutils.structures.maps import ImmutIntervalMap
    comp = ImmutIntervalMap({(1000, 1001): "companion-b", (990, 995): "companion-a"})   # a second, independent map
    bad = _check_case(intervals, probes)
    if bad is None:
        g = outcome(lambda: (list(comp), len(comp), comp[1000.5], comp[990], 997 in comp, 2 in comp))
        if g != ("ok", ([((990, 995), "companion-a"), ((1000, 1001), "companion-b")], 2, "companion-b", "companion-a", False, False)):
            return "other-instance-disturbed", f"a second map {{(990,995),(1000,1001)}} built before and untouched during the case answers {g}"
    return bad


def _check_case(intervals, probes):
    from windpyutils.structures.maps import ImmutIntervalMap
    # values include None and other falsy objects: membership is about the key, never about the value
    vals = [None, 0, "", False, (), 0.0]
    mapping = {iv: (f"v{i}" if (i + len(intervals)) % 3 else vals[i % len(vals)]) for i, iv in enumerate(intervals)}
    if len(intervals) % 4 == 3:
        # values are opaque objects: plain instances (equal only to themselves) and objects that cannot be copied
        import threading
        opaque = [object(), threading.Lock(), type("V", (), {})()]
        for i, iv in enumerate(intervals):
            if i % 2 == 0:
                mapping[iv] = opaque[i % 3]
    got = outcome(lambda: ImmutIntervalMap(mapping))
    ok = valid(intervals)
    if not ok:
        if got != ("exc", "KeyError"):
            return "construction", f"ImmutIntervalMap({mapping}) -> {got[0]}:{got[1] if got[0]=='exc' else 'constructed'}, expected KeyError"
        return None
    if got[0] != "ok":
        return "construction", f"ImmutIntervalMap({mapping}) raised {got[1]} although the intervals are valid and disjoint"
    m = got[1]
    # the map is immutable: later changes of the dict it was built from must not show through
    src_snapshot = dict(mapping)
    for k in list(mapping)[:1]:
        mapping[k] = "changed-after-construction"
    if len(mapping) > 1:
        del mapping[list(mapping)[-1]]
    mapping[(10 ** 6, 10 ** 6 + 1)] = "added-after-construction"
    mapping = src_snapshot
    if len(m) != len(intervals):
        return "len", f"len -> {len(m)}, {len(intervals)} intervals"
    it = outcome(lambda: list(m))
    want_it = [(iv, mapping[iv]) for iv in sorted(intervals)]
    if it != ("ok", want_it):
        return "iteration", f"iteration of {mapping} -> {it}, expected ascending {want_it}"
    # the same long-lived map object is probed ascending, descending and in seeded shuffled orders (hits and misses
    # interleaved): an "immutable" map must answer independently of its lookup history
    import random
    rng = random.Random(len(intervals) * 7919 + len(probes))
    probes = list(probes) + [float("inf"), float("-inf")]
    seqs = [list(probes), list(reversed(probes))]
    for _ in range(3):
        sp = list(probes) * 2
        rng.shuffle(sp)
        seqs.append(sp)
    history = []
    for sp in seqs:
        for k in sp:
            hits = [mapping[(s, e)] for s, e in intervals if s <= k <= e]
            want = ("ok", hits[0]) if hits else ("exc", "KeyError")
            hits = [1] if hits else []      # membership: the key lies in an interval, whatever its value is
            use_in = rng.random() < 0.3
            history.append(k)
            k = common.fresh(k)         # an equal number, not the identical object
            if not use_in:
                g = outcome(lambda: m[k])
                if g != want:
                    return "lookup", (f"ImmutIntervalMap({mapping})[{k}] -> {g}, linear scan gives {want} (previous "
                                      f"lookups on this object: {history[-6:-1]})")
            else:
                g = outcome(lambda: k in m)
                if g != ("ok", bool(hits)):
                    return "membership", (f"{k} in ImmutIntervalMap({mapping}) -> {g}, expected {bool(hits)} (previous "
                                          f"lookups: {history[-6:-1]})")
    # copies of the map (copy.copy, copy.deepcopy, a pickle round trip - how a map reaches another process) are maps with the
    # same intervals: same iteration, same answers
    if len(intervals) % 4 != 3:
        import copy
        import pickle
        for how, fn in (("copy.copy", copy.copy), ("copy.deepcopy", copy.deepcopy), ("pickle round trip", lambda x: pickle.loads(pickle.dumps(x)))):
            g = outcome(lambda: fn(m))
            if g[0] != "ok":
                return "copy", f"{how} of ImmutIntervalMap({mapping}) raised {g[1]}"
            m2 = g[1]
            if len(m2) != len(intervals) or outcome(lambda: list(m2)) != ("ok", want_it):
                return "copy", f"{how} of ImmutIntervalMap({mapping}): iteration -> {outcome(lambda: list(m2))}, expected {want_it}"
            for k in probes:
                hits = [mapping[(s, e)] for s, e in intervals if s <= k <= e]
                want = ("ok", hits[0]) if hits else ("exc", "KeyError")
                g2, gin = outcome(lambda: m2[k]), outcome(lambda: k in m2)
                if g2 != want or gin != ("ok", bool(hits)):
                    return "copy", f"{how} of ImmutIntervalMap({mapping}): [{k}] -> {g2}, `in` -> {gin}; the original gives {want}"
    # keys of the other exact numeric types answer like the int / float they equal
    from decimal import Decimal
    from fractions import Fraction
    for k in probes:
        if k != k or k in (float("inf"), float("-inf")):
            continue
        hits = [mapping[(s, e)] for s, e in intervals if s <= k <= e]
        want = ("ok", hits[0]) if hits else ("exc", "KeyError")
        for conv in (Decimal, Fraction):
            if isinstance(k, (Decimal, Fraction)):
                continue        # (already a probe of another exact type; Decimal(Fraction) does not exist)
            kk = conv(k)
            g, gin = outcome(lambda: m[kk]), outcome(lambda: kk in m)
            if g != want or gin != ("ok", bool(hits)):
                return "lookup", (f"ImmutIntervalMap({mapping})[{kk!r}] -> {g}, `in` -> {gin}; the equal key {k!r} gives {want}")
    if len(m) != len(intervals) or outcome(lambda: list(m)) != ("ok", want_it):
        return "iteration", "len/iteration changed after lookups"
    return None


def concurrent_first_lookups(intervals, probes, nthreads=4):
    """A fresh map shared by several threads whose FIRST lookups overlap (the map is immutable, sharing it without a
    lock is ordinary use). The line monitor forces a GIL hand-off every second statement of repository code."""
    import threading
    from windpyutils.structures.maps import ImmutIntervalMap
    mapping = {iv: f"v{i}" for i, iv in enumerate(intervals)}
    m = ImmutIntervalMap(mapping)
    bad = []
    barrier = threading.Barrier(nthreads)

    def work(tid):
        barrier.wait()
        order = list(probes)[tid:] + list(probes)[:tid]
        for k in order:
            hits = [mapping[(s, e)] for s, e in intervals if s <= k <= e]
            want = ("ok", hits[0]) if hits else ("exc", "KeyError")
            g = outcome(lambda: m[k])
            if g != want and len(bad) < 3:
                bad.append(f"thread {tid}: m[{k}] -> {g}, linear scan gives {want}")
            g = outcome(lambda: k in m)
            if g != ("ok", bool(hits)) and len(bad) < 3:
                bad.append(f"thread {tid}: {k} in m -> {g}, expected {bool(hits)}")
        g = outcome(lambda: list(m))
        if g != ("ok", [(iv, mapping[iv]) for iv in sorted(intervals)]) and len(bad) < 3:
            bad.append(f"thread {tid}: iteration -> {g}")
    instr.start_case(plan={}, trace=False, yield_every=2)
    try:
        ts = [threading.Thread(target=work, args=(t,), name=f"vf:t{t}") for t in range(nthreads)]
        for t in ts:
            t.start()
        for t in ts:
            t.join(60)
    finally:
        instr.stop_case()
        instr.S.yield_every = 0
    if bad:
        return "concurrent-readers", f"ImmutIntervalMap({mapping}) shared by {nthreads} threads (first lookups overlapping): " + "; ".join(bad)
    return None


def cases(tier, seed):
    pts = range(5)
    ivs = [(s, e) for s in pts for e in pts]          # includes inverted and degenerate
    maxk = 4 if tier == "thorough" else 3
    probes = [x / 2 for x in range(-2, 11)]
    for _ in range(4):
        yield [], probes        # the empty map, in four consecutive shards (one of them runs under -O, one with DEBUG logging)
    for k in range(1, maxk + 1):
        for combo in itertools.permutations(ivs, k):
            yield list(combo), probes
    rng = common.rng_for(PROP, seed, "sampled")
    # large magnitudes with unit gaps (timestamps in ms, counters): exact arithmetic, no tolerance is allowed to creep in
    inf = float("inf")
    for ivs in ([(0, 1), (5, inf)], [(-inf, -3), (0, 0)], [(-inf, inf)], [(-inf, 0), (0.5, inf)], [(1, inf), (-inf, 1)],
                [(inf, inf), (0, 1)], [(-inf, -inf), (3, 4)]):
        yield list(ivs), [-10, -3, -1, 0, 0.25, 0.5, 1, 2, 5, 1e300]
    # two intervals that share an infinite end point (invalid), ints beyond 2**53 next to floats one unit away (valid: int / float
    # comparisons are exact), interval ends of other exact number types next to floats
    from decimal import Decimal
    from fractions import Fraction
    p53 = 2 ** 53
    for ivs in ([(0, inf), (inf, inf)], [(-inf, -inf), (-inf, 0)], [(5, inf), (7, inf)], [(-inf, 3), (-inf, 1)],
                [(p53 + 1, p53 + 1), (float(p53), float(p53))], [(float(p53 + 2), float(p53 + 4)), (p53 + 1, p53 + 1), (p53 + 5, p53 + 7)],
                [(-p53 - 1, -p53 - 1), (-float(p53), -float(p53) + 1)], [(10 ** 17 + 1, 10 ** 17 + 3), (1e17 + 16, 1e17 + 32), (1e17, 1e17)],
                [(Decimal("0.5"), Decimal("1.5")), (2.0, 3.0)], [(Fraction(1, 3), Fraction(2, 3)), (0.75, 1.0), (0, Fraction(1, 4))],
                [(Decimal(2), Decimal(3)), (3.0, 4.0)], [(Fraction(1, 2), 1), (0.5, 0.5)]):
        ends = sorted({x for iv in ivs for x in iv})
        fin = [e for e in ends if e not in (inf, -inf)]
        yield list(ivs), sorted(set(ends + [e + 1 for e in fin] + [e - 1 for e in fin] + [0, 0.5]))
    huge = 10 ** 5000           # more digits than the interpreter converts to text by default: a miss is still a KeyError
    yield [(0, 1), (5, 6)], [huge, -huge, huge + 1, 3, 0, 5.5]
    yield [(huge, huge + 2), (0, 1)], [huge - 1, huge, huge + 1, huge + 2, huge + 3, 0.5, 2]
    big = 10 ** 400
    for ivs in ([(big, big + 5), (0, 1)], [(-big, -big + 2), (big, big)], [(2 ** 1024, 2 ** 1024 + 1), (2 ** 1023, 2 ** 1023 + 1)]):
        ends = sorted({x for iv in ivs for x in iv})
        yield list(ivs), sorted(set(ends + [e + 1 for e in ends] + [e - 1 for e in ends] + [0, 0.5]))
    for base in (10 ** 9, 1_700_000_000_000, 2 ** 53 - 4000, -10 ** 12):
        for _ in range(6 if tier == "quick" else 60):
            out, cur = [], base
            for _ in range(rng.randint(2, 5)):
                ln = rng.choice([0, 1, 2, 999])
                out.append((cur, cur + ln))
                cur += ln + rng.choice([1, 1, 2, 1000])
            rng.shuffle(out)
            ends = sorted({x for iv in out for x in iv})
            pr = sorted(set(ends + [e + 1 for e in ends] + [e - 1 for e in ends] + [e + 0.5 for e in ends[:3]]))
            yield out, pr
    for _ in range(3000 if tier == "quick" else 40000):
        n = rng.randint(3, 6)
        style = rng.choice(["random", "touching", "nested", "disjoint"])
        out = []
        if style == "disjoint" or style == "touching":
            cur = rng.choice([0, 0.5, 1])
            for _ in range(n):
                ln = rng.choice([0, 0.5, 1, 2])
                out.append((cur, cur + ln))
                cur = cur + ln + (rng.choice([0.5, 1]) if style == "disjoint" else rng.choice([0, 0.5]))
            rng.shuffle(out)
        elif style == "nested":
            lo, hi = 0, 12
            for _ in range(n):
                out.append((lo, hi))
                lo += rng.choice([0, 0.5, 1])
                hi -= rng.choice([0, 0.5, 1])
            rng.shuffle(out)
        else:
            for _ in range(n):
                a, b = rng.randint(0, 20) / 2, rng.randint(0, 20) / 2
                out.append((a, b) if rng.random() < 0.9 else (max(a, b), min(a, b)))
        out = list(dict.fromkeys(out))
        ends = sorted({x for iv in out for x in iv})
        pr = sorted(set(ends + [(a + b) / 2 for a, b in zip(ends, ends[1:])] + [ends[0] - 1, ends[-1] + 1]))
        yield out, pr


def run_shard(spec):
    instr.install(["windpyutils.structures.maps", "windpyutils.structures.span_set"])
    sys.set_int_max_str_digits(0)
    res = ShardResult()
    per = {}
    for i, (ivs, probes) in enumerate(cases(spec["tier"], spec["seed"])):
        if i % spec["nshards"] != spec["shard"]:
            continue
        res.count("cases")
        res.evaluations += (1 + 8 * len(probes)) if valid(ivs) else 1
        res.count("valid_sets" if valid(ivs) else "invalid_sets")
        if len(ivs) >= 2:
            res.seen(tuple(ivs))
        with instr.budget(500000):
            try:
                bad = check_case(ivs, probes)
            except instr.StepBudgetExceeded:
                bad = ("operation-does-not-end", f"intervals {ivs}: statement budget exceeded")
        if not bad and valid(ivs) and len(ivs) >= 2 and (i // spec["nshards"]) % (15 if spec["tier"] == "quick" else 5) == 0:
            res.count("concurrent_reader_runs")
            res.evaluations += 8 * len(probes)
            bad = concurrent_first_lookups(ivs, probes)
            if bad:
                per[bad[0]] = per.get(bad[0], 0) + 1
                if per[bad[0]] <= 10:
                    res.violation(bad[0], bad[1], {"case": {"intervals": [list(x) for x in ivs], "probes": list(probes),
                                                            "threads": True}})
                bad = None
        if bad:
            per[bad[0]] = per.get(bad[0], 0) + 1
            if per[bad[0]] <= 10:
                res.violation(bad[0], bad[1], {"case": {"intervals": [list(x) for x in ivs], "probes": list(probes)}})
        elif i % 4001 == 0:
            res.sample({"intervals": ivs, "n_probes": len(probes)})
    res.count("repo_line_events", instr.S.total)
    return res.as_dict()


def extra_coverage(tier, seed):
    return {"exhaustive": True, "explanation": "all ordered selections of <=3 (quick) / <=4 (thorough) intervals over "
            "integer ends 0..4 are enumerated completely; larger sets are sampled"}


def replay(doc):
    sys.set_int_max_str_digits(0)
    instr.install(["windpyutils.structures.maps", "windpyutils.structures.span_set"])
    c = doc["replay"]["case"]
    if c.get("threads"):
        bad = None
        for _ in range(20):
            bad = bad or concurrent_first_lookups([tuple(x) for x in c["intervals"]], c["probes"])
    else:
        bad = check_case([tuple(x) for x in c["intervals"]], c["probes"])
    if bad:
        return True, f"reproduced: {bad[0]}: {bad[1]}"
    return False, "agrees with the linear scan"


RULE += ' Also (wave 9): intervals sharing an infinite end, ints beyond 2**53 next to floats one unit away, Decimal / Fraction interval ends next to floats; the empty map in four consecutive shards (-O, DEBUG logging, warnings as errors, plain).'
