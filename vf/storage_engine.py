"""
Driver + history oracle for TextFileStorage (C14), plugged into the case-child machinery of
vf/pool_engine.py (own session, shared event log with one logical clock, quiescence watchdog,
sys.monitoring delay plans inherited by the forked writers and readers).
"""
import multiprocessing
import os
import shutil
import time
import traceback

from vf import instr
from vf import pool_engine as pe


def text_for(case, w, g, attempt):
    """Unique single-line text per (writer, id, attempt); decorated with hostile but line-break-free characters."""
    deco = case.get("deco", ["", " ", "ž", "日本", "😀", "\t", ",;\"'\\", "  lead", "trail  ", "\x00", " ", "\x0b", "\x85", "\u2028", "\x1c", "\x0c", "C:\\new\\readme", "\\n", "a\\rb\\\\"])      # the last five: line boundaries for str.splitlines(), not for a file
    d = deco[(w * 7 + g * 3 + attempt) % len(deco)]
    return f"{d}<w{w}|g{g}|a{attempt}>{d}"


def _writer(st, ops, sh, wi, start, case):
    instr.reset_for_child(f"workerW{wi}")
    start.wait(20)
    try:
        for k, (g, attempt, pause) in enumerate(ops):
            t = text_for(case, wi, g, attempt)
            if pause:
                sh.nap(pause)
            if case.get("writer_reopens") and k and k % 2 == 0:
                st.close()              # a writer that works in sessions: the next store re-opens its file for appending
            sh.log("store_call", w=wi, g=g, t=t)
            try:
                st[g] = t
                sh.log("store_ret", w=wi, g=g, t=t, out="ok")
            except ValueError:
                sh.log("store_ret", w=wi, g=g, t=t, out="ValueError")
            except Exception as e:
                sh.log("store_ret", w=wi, g=g, t=t, out=f"exc:{type(e).__name__}: {e}")
        if case.get("linger"):
            # the writer stays open (idle) for a while after its last store: readers must already see that store
            sh.log("writer_lingers", w=wi)
            sh.nap(case["linger"])
    finally:
        try:
            st.close()
        except Exception:
            pass


def _read_once(st, sh, who, g):
    sh.log("read_call", r=who, g=g)
    try:
        v = st[g]
        sh.log("read_ret", r=who, g=g, out="text", t=v)
    except IndexError:
        sh.log("read_ret", r=who, g=g, out="IndexError")
    except Exception as e:
        sh.log("read_ret", r=who, g=g, out=f"exc:{type(e).__name__}: {e}")


def _reader(st, ids, sh, ri, start, stop, max_reads, seed):
    import random
    instr.reset_for_child(f"workerR{ri}")
    rng = random.Random(seed)
    start.wait(20)
    try:
        k = 0
        while k < max_reads and not (stop.is_set() and k >= 10):
            _read_once(st, sh, f"R{ri}", rng.choice(ids))
            k += 1
            time.sleep(0.0005)
    finally:
        try:
            st.close()
        except Exception:
            pass


def _late_user(st, sh, go, conn, t3, early=None, universe=()):
    """Forked before anything is stored, idle until the parent has flushed and stored again: then it looks at the storage
    and stores one more text (a long-lived worker that is used again in the next round)."""
    instr.reset_for_child("workerL")
    try:
        if early is not None:
            # first use, at the end of the first round (everything is stored, nothing flushed yet): it reads everything and closes,
            # as the documentation asks every process to do before a flush
            if not early.wait(120):
                conn.send({"error": "never released (first round)"})
                return

            def safe0(fn):
                try:
                    return ["ok", fn()]
                except Exception as e:
                    return ["exc", f"{type(e).__name__}: {e}"]
            v0 = {"iter": safe0(lambda: list(st)), "reads": {str(g): safe0(lambda: st[g]) for g in universe}}
            try:
                st.close()
            except Exception:
                pass
            conn.send(v0)
        if not go.wait(60):
            conn.send({"error": "never released"})
            return

        def safe(fn):
            try:
                return ["ok", fn()]
            except Exception as e:
                return ["exc", f"{type(e).__name__}: {e}"]
        view = {"len": safe(lambda: len(st)), "contiguous": safe(lambda: st.is_contiguous()), "iter": safe(lambda: list(st)),
                "read0": safe(lambda: st[0])}
        view["store1"] = safe(lambda: st.__setitem__(1, t3))
        view["len_after"] = safe(lambda: len(st))
        try:
            st.close()
        except Exception:
            pass
        conn.send(view)
    finally:
        conn.close()


def drive_storage(case, sh, state):
    from windpyutils.parallel.storage import TextFileStorage
    import random
    ctx = multiprocessing.get_context("fork")
    d = os.path.join(os.path.dirname(sh.logpath), "stor[1]*")         # a directory name is just a name (no pattern)
    shutil.rmtree(d, ignore_errors=True)        # nothing of an earlier run in the same scratch directory
    os.makedirs(d)
    state["phase"] = "setup"
    st = TextFileStorage(d, "storage", number_of_data=case.get("presize"))
    final = {}
    state["storage_final"] = final
    universe = sorted({g for ops in case["writers"] for g, _, _ in ops} | set(case.get("extra_ids", []))
                      | set(case.get("parent_stores_first", [])) | set(case.get("parent_stores_during", [])))
    if not universe:
        universe = [0]
    start, stop = ctx.Event(), ctx.Event()
    procs = []
    first_phase = []

    def parent_store(g):
        t = text_for(case, 100, g, 0)
        sh.log("store_call", w=100, g=g, t=t)
        try:
            st[g] = t
            sh.log("store_ret", w=100, g=g, t=t, out="ok")
        except ValueError:
            sh.log("store_ret", w=100, g=g, t=t, out="ValueError")
        except Exception as e:
            sh.log("store_ret", w=100, g=g, t=t, out=f"exc:{type(e).__name__}: {e}")
    late = None
    if case.get("late_user"):
        go_late = ctx.Event()
        a, b = ctx.Pipe(duplex=False)
        t3 = text_for(case, 97, 1, 0)
        go_early = ctx.Event() if case.get("late_user_reads_first") else None
        lp = ctx.Process(target=_late_user, args=(st, sh, go_late, b, t3, go_early, universe))
        lp.start()
        b.close()
        late = (lp, a, go_late, t3, go_early)
    for g in case.get("parent_stores_first", []):
        # the parent is a writer itself and has stored before it forks: the forked writers inherit its open file and its
        # writer identity (they all append to one file from then on)
        parent_store(g)
    if case.get("parent_reads_before_fork") and len(case["writers"]) >= 2:
        # two phases: the first writer runs to completion, the parent reads everything it stored (and thereby opens its
        # read handles), and only then the remaining writers and the readers are forked - they inherit those handles
        state["phase"] = "first_phase"
        p0 = ctx.Process(target=_writer, args=(st, case["writers"][0], sh, 0, start, dict(case, linger=0)))
        start.set()
        p0.start()
        p0.join()
        first_phase.append(p0)
        for g in universe:
            _read_once(st, sh, "P", g)
        sh.log("parent_read_before_fork")
    for wi, ops in enumerate(case["writers"]):
        if first_phase and wi == 0:
            continue
        procs.append(("w", ctx.Process(target=_writer, args=(st, ops, sh, wi, start, case))))
    for ri in range(case.get("readers", 0)):
        procs.append(("r", ctx.Process(target=_reader, args=(st, universe, sh, ri, start, stop, case.get("max_reads", 300),
                                                              case.get("seed", 0) * 31 + ri))))
    state["phase"] = "running"
    if case.get("sequential_writers"):
        # short-lived writers one after the other (no more than a few processes alive at a time)
        start.set()
        for _, p in procs:
            p.start()
            p.join()
    else:
        for _, p in procs:
            p.start()
    raw = []
    for ri in range(case.get("raw_fork_readers", 0)):
        # a reader created with a plain os.fork() (pre-fork server style), not through multiprocessing
        pid = os.fork()
        if pid == 0:
            code = 0
            try:
                # what a pre-fork server has to do for anything built on multiprocessing: proxies of manager objects must
                # not share the parent's connection (multiprocessing does this for the children it starts itself)
                multiprocessing.util._run_after_forkers()
                _reader(st, universe, sh, 90 + ri, start, stop, case.get("max_reads", 300), case.get("seed", 0) * 17 + ri)
            except BaseException:
                code = 3
            finally:
                os._exit(code)
        raw.append(pid)
    start.set()
    rng = random.Random(case.get("seed", 0))
    k = 0
    during = list(case.get("parent_stores_during", []))
    while any(p.is_alive() for kind, p in procs if kind == "w") or during:
        if during:
            parent_store(during.pop(0))
        if case.get("parent_polls", True) and k < case.get("max_reads", 300):
            _read_once(st, sh, "P", rng.choice(universe))
            k += 1
            if case.get("parent_iterates") and k % 7 == 3:
                # a complete iteration WHILE the writers run
                sh.log("iter_call", r="P")
                try:
                    texts = list(st)
                    sh.log("iter_ret", r="P", out="ok", texts=texts)
                except Exception as e:
                    sh.log("iter_ret", r="P", out=f"exc:{type(e).__name__}: {e}")
        time.sleep(0.0005)
    for kind, p in procs:
        if kind == "w":
            p.join()
    stop.set()
    state["phase"] = "joining_readers"
    for kind, p in procs:
        if kind == "r":
            p.join()
    raw_codes = []
    for pid in raw:
        _, status = os.waitpid(pid, 0)
        raw_codes.append(os.waitstatus_to_exitcode(status))
    final["exitcodes"] = [p.exitcode for _, p in procs] + [p.exitcode for p in first_phase] + raw_codes
    # ---- quiescent point: everything that was stored is visible
    state["phase"] = "final_checks"
    sh.log("quiescent")

    def safe(fn):
        try:
            return ["ok", fn()]
        except Exception as e:
            return ["exc", f"{type(e).__name__}: {e}"]
    final["len"] = safe(lambda: len(st))
    final["contiguous"] = safe(lambda: st.is_contiguous())
    final["iter"] = safe(lambda: list(st))
    final["reads"] = {str(g): safe(lambda: st[g]) for g in universe}
    final["reads_again"] = {str(g): safe(lambda: st[g]) for g in universe}
    final["files_before_flush"] = sorted(os.listdir(d))
    if late and late[4] is not None:
        late[4].set()
        final["late_user_first_view"] = late[1].recv() if late[1].poll(120) else {"error": "no report"}
    if case.get("parent_writes_late"):
        g = max(universe) + 2
        t = text_for(case, 99, g, 0)
        final["late_store"] = safe(lambda: st.__setitem__(g, t))
        final["late_read"] = [safe(lambda: st[g]), t]
        final["len_after_late"] = safe(lambda: len(st))
        final["iter_after_late"] = safe(lambda: list(st))
        final["late_id"] = g
    st.close()
    comp = None
    if case.get("companion_storage"):
        # a second, independent storage in the same directory whose prefix starts like the first one's
        comp = TextFileStorage(d, "storage_more")
        comp[0] = "text of the companion storage"
        comp.close()
    state["phase"] = "flush"
    final["flush"] = safe(lambda: st.flush())
    final["files_after_flush"] = sorted(f for f in os.listdir(d) if not f.startswith("storage_more_"))
    if comp is not None:
        final["companion_after_flush"] = safe(lambda: comp[0])
        comp.close()
        safe(lambda: comp.flush())
    final["len_after_flush"] = safe(lambda: len(st))
    final["iter_after_flush"] = safe(lambda: list(st))
    final["read_after_flush"] = safe(lambda: st[universe[0]])
    t2 = text_for(case, 98, 0, 0)
    final["store_after_flush"] = safe(lambda: st.__setitem__(0, t2))
    final["read_back_after_flush"] = [safe(lambda: st[0]), t2]
    final["len_after_restore"] = safe(lambda: len(st))
    final["contiguous_after_restore"] = safe(lambda: st.is_contiguous())
    st.close()
    if late:
        state["phase"] = "late_user"
        lp, a, go_late, t3, _ = late
        go_late.set()
        final["late_user_view"] = a.recv() if a.poll(60) else {"error": "no report"}
        lp.join(30)
        final["late_user_text"] = [t2, t3]
        final["parent_view_after_late_user"] = {"len": safe(lambda: len(st)), "contiguous": safe(lambda: st.is_contiguous()),
                                                "iter": safe(lambda: list(st)), "read1": safe(lambda: st[1])}
        st.close()
    state.setdefault("notes", []).append({"storage_final": final})


pe.DRIVERS["storage"] = drive_storage


# ---------------------------------------------------------------------------------------- oracle


def storage_findings(case, result):
    out = []
    ev = sorted(result.get("events", []), key=lambda e: e["seq"])
    stores = {}      # (w, g, t) -> {"call":seq, "ret":seq|None, "out":...}
    for e in ev:
        if e["ev"] == "store_call":
            stores[(e["w"], e["g"], e["t"])] = {"call": e["seq"], "ret": None, "out": None, "g": e["g"], "t": e["t"], "w": e["w"]}
        elif e["ev"] == "store_ret":
            s = stores.get((e["w"], e["g"], e["t"]))
            if s is not None:
                s["ret"], s["out"] = e["seq"], e["out"]
    by_id = {}
    for s in stores.values():
        by_id.setdefault(s["g"], []).append(s)
    completed = result.get("status") == "completed"
    winners = {}
    for g, ss in by_id.items():
        oks = [s for s in ss if s["out"] == "ok"]
        bad = [s for s in ss if s["out"] not in ("ok", "ValueError", None)]
        for s in bad:
            out.append(("store-raised", f"store of id {g} by writer {s['w']} raised {s['out']}"))
        if completed and not bad:
            if len(oks) != 1:
                out.append(("duplicate-store-outcome", f"id {g} was stored {len(ss)} times: {len(oks)} calls succeeded "
                            f"(exactly one must), outcomes {[s['out'] for s in ss]}"))
        if len(oks) == 1:
            winners[g] = oks[0]
    # reads
    open_reads = {}
    nreads = 0
    for e in ev:
        if e["ev"] == "read_call":
            open_reads[(e["r"], e["g"])] = e["seq"]
        elif e["ev"] == "read_ret":
            call_seq = open_reads.pop((e["r"], e["g"]), None)
            if call_seq is None:
                continue
            nreads += 1
            g = e["g"]
            ss = by_id.get(g, [])
            if e["out"] == "text":
                t = e.get("t")
                cands = [s for s in ss if s["t"] == t and s["call"] < e["seq"]]
                if not cands:
                    kind = "read-empty-or-partial" if (t == "" or any(s["t"].startswith(t) for s in ss)) else \
                        "read-foreign-text"
                    if not ss:
                        kind = "read-of-never-stored-id"
                    out.append((kind, f"reader {e['r']} read id {g} -> {t!r}; texts stored under {g}: "
                                f"{[s['t'] for s in ss]} (read returned at seq {e['seq']})"))
                else:
                    s = cands[0]
                    if s["out"] == "ValueError":
                        out.append(("read-of-rejected-store", f"reader {e['r']} read id {g} -> text of a store that was "
                                    f"rejected with ValueError"))
            elif e["out"] == "IndexError":
                done = [s for s in ss if s["out"] == "ok" and s["ret"] is not None and s["ret"] < call_seq]
                if done:
                    out.append(("read-misses-completed-store", f"reader {e['r']} got IndexError for id {g} although a "
                                f"store of it had returned at seq {done[0]['ret']} < read call seq {call_seq}"))
            else:
                out.append(("read-raised", f"reader {e['r']} reading id {g}: {e['out']}"))
    # iterations concurrent with the writers: in id order; every text whose store had returned before the iteration was
    # called is there, nothing is there whose store was called after the iteration returned, and nothing foreign
    it_call = None
    for e in ev:
        if e["ev"] == "iter_call":
            it_call = e["seq"]
        elif e["ev"] == "iter_ret" and it_call is not None:
            if e["out"] != "ok":
                out.append(("iteration-raised", f"list(storage) while writers run: {e['out']}"))
            else:
                texts = e["texts"]
                by_text = {s["t"]: s for s in stores.values() if s["out"] in ("ok", None)}
                ids = []
                bad = None
                for t in texts:
                    s = by_text.get(t)
                    if s is None or s["call"] > e["seq"]:
                        bad = f"yields {t!r} which no store that had started supplied"
                        break
                    ids.append(s["g"])
                if bad is None and ids != sorted(set(ids)):
                    bad = f"ids {ids} are not in ascending order / not distinct"
                if bad is None:
                    must = sorted(s["g"] for s in stores.values() if s["out"] == "ok" and s["ret"] is not None and s["ret"] < it_call)
                    missing = [g for g in must if g not in ids]
                    if missing:
                        bad = (f"misses ids {missing[:5]} whose store had returned before the iteration was called (it yielded ids {ids[:12]})")
                if bad:
                    out.append(("concurrent-iteration", f"list(storage) while writers run (called at seq {it_call}, returned at {e['seq']}) {bad}"))
            nreads += 1
            it_call = None
    # final state
    fin = None
    for n in result.get("notes", []):
        if "storage_final" in n:
            fin = n["storage_final"]
    if fin and completed:
        ids = sorted(winners)
        want_texts = [winners[g]["t"] for g in ids]
        if fin.get("len") != ["ok", len(ids)]:
            out.append(("len-mismatch", f"len(storage) -> {fin.get('len')}, {len(ids)} ids are stored ({ids})"))
        contiguous = ids == list(range(len(ids)))
        if fin.get("contiguous") != ["ok", contiguous]:
            out.append(("contiguity-mismatch", f"is_contiguous() -> {fin.get('contiguous')}, stored ids {ids}"))
        if fin.get("iter") != ["ok", want_texts]:
            mech = "iteration-bounded-by-count" if (fin.get("iter", [None])[0] == "ok" and not contiguous and
                                                    fin["iter"][1] == want_texts[:len(fin["iter"][1])]) else "iteration-mismatch"
            out.append((mech, f"list(storage) -> {_short(fin.get('iter'))}, stored ids {ids} hold {_short(want_texts)}"))
        for key in ("reads", "reads_again"):
            for gs, got in (fin.get(key) or {}).items():
                g = int(gs)
                want = ["ok", winners[g]["t"]] if g in winners else None
                if want is not None and got != want:
                    out.append(("final-read-mismatch", f"after all writers finished storage[{g}] -> {_short(got)}, stored "
                                f"text is {want[1]!r}"))
                if want is None and not (got[0] == "exc" and got[1].startswith("IndexError")):
                    out.append(("final-read-mismatch", f"storage[{g}] (never stored) -> {_short(got)}, expected IndexError"))
        if "late_store" in fin:
            if fin["late_store"][0] != "ok":
                out.append(("late-store-failed", f"parent storing after the writers finished -> {fin['late_store']}"))
            else:
                if fin["late_read"][0] != ["ok", fin["late_read"][1]]:
                    out.append(("final-read-mismatch", f"parent's own late store read back as {fin['late_read'][0]}"))
                if fin.get("len_after_late") != ["ok", len(ids) + 1]:
                    out.append(("len-mismatch", f"len after one more store -> {fin.get('len_after_late')}"))
                if fin.get("iter_after_late") != ["ok", want_texts + [fin["late_read"][1]]]:
                    out.append(("iteration-bounded-by-count" if ids != list(range(len(ids))) or fin["late_id"] != len(ids)
                                else "iteration-mismatch",
                                f"list(storage) after a late store with a gap -> {_short(fin.get('iter_after_late'))}"))
        if fin.get("flush", ["?"])[0] != "ok":
            out.append(("flush-raised", f"flush() -> {fin.get('flush')}"))
        else:
            if fin.get("files_after_flush"):
                out.append(("flush-leaves-files", f"files after flush(): {fin['files_after_flush']}"))
            if "companion_after_flush" in fin and fin["companion_after_flush"] != ["ok", "text of the companion storage"]:
                out.append(("flush-touches-other-storage", f"after flush() a second storage in the same directory (prefix 'storage_more') reads "
                            f"{_short(fin['companion_after_flush'])}"))
            if fin.get("len_after_flush") != ["ok", 0] or fin.get("iter_after_flush") != ["ok", []]:
                out.append(("flush-does-not-reset", f"after flush(): len {fin.get('len_after_flush')}, iteration "
                            f"{fin.get('iter_after_flush')}"))
            raf = fin.get("read_after_flush", ["?", ""])
            if not (raf[0] == "exc" and raf[1].startswith("IndexError")):
                out.append(("flush-does-not-reset", f"read after flush() -> {_short(raf)}, expected IndexError"))
            if fin.get("store_after_flush", ["?"])[0] != "ok":
                out.append(("store-after-flush-fails", f"storing after flush() -> {fin.get('store_after_flush')}"))
            elif fin["read_back_after_flush"][0] != ["ok", fin["read_back_after_flush"][1]] or \
                    fin.get("len_after_restore") != ["ok", 1] or fin.get("contiguous_after_restore") != ["ok", True]:
                out.append(("store-after-flush-fails", f"after flush() + store of id 0: read {fin['read_back_after_flush'][0]}"
                            f", len {fin.get('len_after_restore')}, contiguous {fin.get('contiguous_after_restore')}"))
        if "late_user_first_view" in fin:
            v0 = fin["late_user_first_view"]
            want0 = {"iter": fin.get("iter"), "reads": fin.get("reads")}
            if v0 != want0 and fin.get("iter", ["?"])[0] == "ok":
                diff = {k: v0.get(k) for k in want0 if v0.get(k) != want0[k]} if "error" not in v0 else v0
                out.append(("views-differ", f"a process forked before the first round and used for the first time when everything was stored: "
                            f"its view {_short(diff)} differs from the parent's at the same (quiescent) moment {_short({k: want0[k] for k in diff})}"))
        if "late_user_view" in fin and fin.get("store_after_flush", ["?"])[0] == "ok" and fin.get("flush", ["?"])[0] == "ok":
            t2, t3 = fin["late_user_text"]
            v = fin["late_user_view"]
            want_v = {"len": ["ok", 1], "contiguous": ["ok", True], "iter": ["ok", [t2]], "read0": ["ok", t2], "store1": ["ok", None],
                      "len_after": ["ok", 2]}
            if v != want_v:
                diff = {k: v.get(k) for k in want_v if v.get(k) != want_v[k]} if "error" not in v else v
                out.append(("views-differ-after-flush", f"a process forked before the first round, used after flush() and one new store: "
                            f"its view differs from the storage's content: {_short(diff)} (expected {_short({k: want_v[k] for k in diff})})"))
            pv = fin["parent_view_after_late_user"]
            want_p = {"len": ["ok", 2], "contiguous": ["ok", True], "iter": ["ok", [t2, t3]], "read1": ["ok", t3]}
            if v == want_v and pv != want_p:
                diff = {k: pv.get(k) for k in want_p if pv.get(k) != want_p[k]}
                out.append(("views-differ-after-flush", f"after flush(), the parent's view after another (pre-forked) process stored id 1: "
                            f"{_short(diff)} (expected {_short({k: want_p[k] for k in diff})})"))
        if any(x not in (0, None) for x in fin.get("exitcodes", [])):
            out.append(("child-crashed", f"writer/reader exit codes {fin.get('exitcodes')}"))
    d = pe.deadlock_finding(case, result)
    if d:
        out.append(("storage-deadlock", d[1]))
    if result.get("status") == "driver-exception":
        w = result.get("witness") or {}
        out.append(("storage-api-raised", f"storage API raised in the parent in phase {result.get('phase')}: "
                    f"{w.get('exception')}"))
    return out, nreads


def _short(x):
    r = repr(x)
    return r if len(r) < 300 else r[:220] + f"...({len(r)} chars)"
