"""
Shard runner shared by the pool properties C01-C04: dry run of a base case, sweep of single
delays over every statement the dry run executed (sweep-1), random pairs/triples of delay
points (random-k), evaluation of the oracles of vf/pool_engine.py, attribution of findings.

A property module provides
    PROP, NBASES = {"quick": n, "thorough": n}
    gen_base(rng, tier, index)  -> case dict (without plan)
    owns(kind, mechanism, case, result) -> bool     which findings this property reports
    SWEEP_PREFIXES                                  qualname prefixes whose statements get delays
"""
import inspect
import shutil
import time

from vf import common, instr
from vf import pool_engine as pe
from vf.common import ShardResult

MODULES = ["windpyutils.parallel.own_proc_pools", "windpyutils.buffers"]
DEFAULT_PREFIXES = ["FunctorPool", "FactoryFunctorPool", "CMThread", "Buffer", "BaseFunctorWorker"]


def plan(mod, tier, seed):
    return [{"tier": tier, "seed": seed, "base": i} for i in range(mod.NBASES[tier])]


def findings(case, result):
    out = []
    for mech, summary in pe.value_findings(case, result):
        out.append(("value", mech, summary))
    d = pe.deadlock_finding(case, result)
    if d:
        out.append(("deadlock", d[0], d[1]))
    if case.get("kind", "pool") == "pool":
        for mech, summary in pe.lifecycle_findings(case, result):
            out.append(("lifecycle", mech, summary))
    if result.get("status") == "driver-exception":
        w = result.get("witness") or {}
        out.append(("driver", "pool-api-raised", f"pool API raised outside a call: {w.get('exception')} in phase "
                    f"{result.get('phase')}"))
    return out


def _flow_control_site():
    try:
        from windpyutils.parallel.own_proc_pools import FunctorPool
        src, first = inspect.getsourcelines(FunctorPool.imap)
        for k, line in enumerate(src):
            if "run_event.clear()" in line:
                return f"FunctorPool.imap+{k}"
    except Exception:
        pass
    return None


def delay_plans(case, dry, mod, tier, rng):
    prefixes = getattr(mod, "SWEEP_PREFIXES", DEFAULT_PREFIXES)
    plans = []
    sites = [x for x in pe.sweep_sites(dry, prefixes) if not isinstance(x[2], str)]
    t = pe.MAX_DELAY
    hot = ("FunctorPool.SendWorkThread.run", "FunctorPool.imap", "FunctorPool.imap_unordered", "FunctorPool._get_results",
           "FactoryFunctorPool.ReplaceWorkerThread.run", "FactoryFunctorPool.ReplaceWorkerThread.stop", "CMThread.stop",
           "FunctorMap.__call__", "FunctorMap.__exit__", "mul_p_map")
    for role, qn, rel, n in sites:
        if tier == "thorough":
            occs = sorted({1, 2, n} & set(range(1, n + 1)))
        else:
            occs = [1]
            if n > 1 and qn in hot:
                occs.append(n)
            if n > 2 and qn in hot and rng.random() < 0.3:
                occs.append(rng.randint(2, n - 1))
        for o in occs:
            plans.append([[role, qn, rel, o, "sleep", t]])
    for role, qn, rel in pe.worker_sites(tuple(getattr(mod, "WORKER_QUALNAMES", ("BaseFunctorWorker.run",)))):
        for o in ((1, 2) if tier == "thorough" else (1,)):
            plans.append([["worker*", qn, rel, o, "sleep", t]])
            for wr in getattr(mod, "WORKER_ROLES", ["worker0"] if case.get("workers", 2) > 1 else []):
                if tier == "thorough" or rng.random() < 0.25:
                    plans.append([[wr, qn, rel, o, "sleep", t]])
    # instruction-granular sweep: a delay before attribute reads/writes INSIDE a statement of the hot functions (a
    # preemption between the two reads of one loop condition is invisible at statement granularity)
    ihot = getattr(mod, "INSTR_HOT", None)
    if ihot:
        isites = [(role, qn, rel, n) for role, qn, rel, n in (dry.get("occ") or [])
                  if isinstance(rel, str) and rel.startswith("i") and qn in ihot]
        iplans = []
        for role, qn, rel, n in sorted(isites):
            for o in sorted({1, n}):
                iplans.append([[role, qn, rel, o, "sleep", t]])
        if tier == "quick" and len(iplans) > getattr(mod, "INSTR_SAMPLE", 60):
            iplans = rng.sample(iplans, getattr(mod, "INSTR_SAMPLE", 60))
        plans.extend(iplans)
        # functions of the pool classes that are not in the hand-written hot list (helpers a refactoring may have
        # introduced): the ones executed repeatedly during a call come first, the run-once ones are sampled
        asites = [(role, qn, rel, n) for role, qn, rel, n in (dry.get("occ") or [])
                  if isinstance(rel, str) and rel.startswith("i") and qn not in ihot and not role.startswith("worker")]
        rep = [[[role, qn, rel, o, "sleep", t]] for role, qn, rel, n in sorted(asites) if n > 1 for o in sorted({1, n})]
        once = [[[role, qn, rel, 1, "sleep", t]] for role, qn, rel, n in sorted(asites) if n == 1]
        if tier == "quick":
            rep = rng.sample(rep, min(len(rep), getattr(mod, "INSTR_AUTO_SAMPLE", 24)))
            once = rng.sample(once, min(len(once), 6))
        plans.extend(rep + once)
    # source-free failpoints: an OSError (EMFILE) raised at each statement of the listed functions, first occurrence,
    # in the forked children (C18: a failing reopen must not leave the child on the inherited descriptor)
    for role, qn, rel in pe.worker_sites(tuple(getattr(mod, "FAULT_QUALNAMES", ()))):
        plans.append([["worker*", qn, rel, 1, "raise_os", 24]])
    if case.get("long_delay"):
        # delays longer than any plausible internal timeout (a worker that is descheduled / swapped out for more than a second),
        # at the k-th execution of every statement of the worker loops, in all workers at once; nothing else for this base
        plans = [[["worker*", qn, rel, o, "sleep", case["long_delay"]]]
                 for role, qn, rel in pe.worker_sites(tuple(getattr(mod, "WORKER_QUALNAMES", ("BaseFunctorWorker.run",))))
                 for o in range(1, case.get("long_delay_occ", 4) + 1)]
        return plans, len(sites)
    if case.get("sweep_only"):
        # a slow base case: only the statements of the named functions are delayed
        plans = [p for p in plans if p[0][1] in case["sweep_only"]]
    single = [p for p in plans if p[0][4] == "sleep"]
    # random-k: pairs / triples of delay points from different roles, 20-150 ms
    nk = getattr(mod, "RANDOM_K", {"quick": 8, "thorough": 150})[tier]
    for _ in range(nk):
        k = rng.choice([2, 2, 3])
        chosen = rng.sample(single, min(k, len(single)))
        roles = {c[0][0] for c in chosen}
        if len(roles) < 2 and len(single) > 4:
            continue
        plans.append([[c[0][0], c[0][1], c[0][2], c[0][3], "sleep", rng.choice([0.02, 0.06, 0.15])] for c in chosen])
    return plans, len(sites)


def run_shard(mod, spec):
    instr.install(getattr(mod, "MODULES", MODULES))
    res = ShardResult()
    tier, seed, bi = spec["tier"], spec["seed"], spec["base"]
    rng = common.rng_for(mod.PROP, seed, "base", bi)
    case = mod.gen_base(rng, tier, bi)
    case["tier"] = tier
    if getattr(mod, "START_METHODS", False) and case.get("kind", "pool") == "pool":
        # non-default multiprocessing contexts: workers are pickled, nothing is inherited (the monitor is
        # re-installed inside the worker); one base per quick run, 2 of 12 in thorough
        if (tier == "quick" and bi == 7) or (tier == "thorough" and bi % 12 == 5):
            case["start"] = "spawn"
        elif tier == "thorough" and bi % 12 == 11:
            case["start"] = "forkserver"
    if getattr(mod, "INSTR_HOT", None):
        case["instr_hooks"] = list(mod.INSTR_HOT) + list(getattr(mod, "INSTR_AUTO", ()))
    scratch = common.scratch_dir("vf-pool-")
    fc_site = _flow_control_site()
    t_end = time.time() + max(getattr(mod, "SHARD_BUDGET_S", {"quick": 100, "thorough": 1500})[tier], case.get("budget_s", 0))
    per_mech = {}

    def evaluate(c, r, label):
        res.evaluations += 1
        res.count("runs")
        if r.get("status") == "inconclusive":
            # once more, alone in this shard and with doubled limits, before it counts
            c2 = dict(c)
            c2["limit_factor"] = 2
            r = pe.run_case(c2, scratch)
            if r.get("status") == "inconclusive":
                res.inconclusive.append({"reason": r.get("reason"), "case": _brief(c)})
                return r
        res.count("status_" + r["status"])
        res.count("line_events_observed", r.get("line_events", 0))
        res.count("events_logged", len(r.get("events", [])))
        for s in r.get("covered", []):
            res.add_to("statements_covered", s)
        for f in r.get("fired", []):
            res.add_to("delay_points_fired", f"{f[0]}:{f[1]}+{f[2]}#{f[3]}")
        if c.get("plan") and not r.get("fired"):
            res.count("runs_where_no_planned_delay_fired")
        if fc_site and fc_site in r.get("covered", []):
            res.count("runs_with_feeder_paused_by_flow_control")
        # distinct executions: thread switch pairs seen in the parent + order in which the processes of the case
        # logged their item / begin / end events (the cross-process interleaving that was actually observed)
        ranks = {}
        ilv = []
        for e in r.get("events", []):
            if e["ev"] in ("item", "begin_enter", "end_enter", "call_end", "call_start"):
                ilv.append((e["ev"][0], ranks.setdefault(e["pid"], len(ranks)), e.get("call"), e.get("idx")))
            elif e["ev"] in ("store_ret", "read_ret"):
                k = (e["ev"][0], ranks.setdefault(e["pid"], len(ranks)), e.get("g"), str(e.get("out"))[:5])
                if e["ev"] == "store_ret" or k not in ilv:     # the first outcome of each kind per (reader, id)
                    ilv.append(k)
        if getattr(mod, "DISTINCT_BY_PLAN", False):
            res.seen((bi, common.h64(c.get("plan")), c.get("yield_every")))
        else:
            res.seen((bi, r.get("switch_sig"), common.h64(ilv)))
        for e in r.get("events", []):
            if e["ev"] == "begin_enter":
                res.count("workers_started")
            elif e["ev"] == "item":
                res.count("items_processed")
        res.count("yields_checked", sum(len(x.get("yields", [])) for x in r.get("calls", [])))
        if hasattr(mod, "observe"):
            mod.observe(c, r, res)
        if c.get("plan") and len(res.samples) < 2 and r.get("fired"):
            res.sample({"base_case": _brief({k: v for k, v in c.items() if k != "plan"}), "delay_plan": c["plan"],
                        "status": r.get("status"), "delay_points_fired": r.get("fired"), "wall_s": r.get("wall"),
                        "thread_switch_pairs_seen": r.get("switch_pairs"), "calls": _calls_brief(r)}, limit=2)
        fs = mod.findings(c, r, res) if hasattr(mod, "findings") else findings(c, r)
        for kind, mech, summary in fs:
            if mod.owns(kind, mech, c, r):
                per_mech[mech] = per_mech.get(mech, 0) + 1
                if per_mech[mech] <= 6:
                    res.violation(mech, f"[{label}] {summary}",
                                  {"case": c, "witness": r.get("witness"), "calls": _calls_brief(r),
                                   "fired": r.get("fired"), "events_tail": r.get("events", [])[-25:]})
                else:
                    res.count("violations_not_listed_" + mech)
            else:
                res.count(f"other_property_findings_{kind}_{mech}")
        return r

    try:
        dry_case = dict(case)
        dry_case["want_occ"] = True
        dry = evaluate(dry_case, pe.run_case(dry_case, scratch), "dry run")
        if dry.get("status") == "completed" and case.get("no_sweep"):
            res.count("bases_without_sweep_(long_idle_periods)")
        elif dry.get("status") == "completed":
            plans, nsites = delay_plans(case, dry, mod, tier, rng)
            if case.get("start", "fork") != "fork":
                # a spawned worker costs a fresh interpreter: sample the plans
                k = 10 if tier == "quick" else 40
                plans = rng.sample(plans, min(k, len(plans)))
                res.count("bases_with_start_method_" + case["start"])
            res.count("sites_in_dry_runs", nsites)
            res.count("delay_plans", len(plans))
            for pi, pl in enumerate(plans):
                if time.time() > t_end:
                    res.count("plans_skipped_time_cap", len(plans) - pi)
                    break
                c = dict(case)
                c["plan"] = pl
                evaluate(c, pe.run_case(c, scratch), "1 delay" if len(pl) == 1 else f"{len(pl)} delays")
            # the same case without line-level delays but with GIL hand-offs forced every few statements
            for ye in (() if case.get("no_sweep") else (3, 11) if tier == "quick" else (2, 3, 5, 11, 37)):
                c = dict(case)
                c["yield_every"] = ye
                evaluate(c, pe.run_case(c, scratch), f"yield every {ye} statements")
        if hasattr(mod, "extra_runs"):
            mod.extra_runs(case, res, scratch, tier, rng)
        res.sample({"base_case": _brief(case), "dry_run_status": dry.get("status"),
                    "dry_run_switch_pairs": dry.get("switch_pairs")}, limit=3)
    finally:
        shutil.rmtree(scratch, ignore_errors=True)
    return res.as_dict()


def _brief(c):
    return {k: v for k, v in c.items() if k not in ("want_occ",)}


def _calls_brief(r):
    out = []
    for c in r.get("calls", []):
        ys = c.get("yields", [])
        out.append({"n_yields": len(ys), "first": ys[:6], "completed": c.get("completed"), "exception": c.get("exception"),
                    "after": c.get("after")})
    return out


def replay(mod, doc):
    instr.install(getattr(mod, "MODULES", MODULES))
    case = doc["replay"]["case"]
    scratch = common.scratch_dir("vf-pool-replay-")
    try:
        hits = []
        for attempt in range(3):
            r = pe.run_case(case, scratch)
            for kind, mech, summary in (mod.findings(case, r, ShardResult()) if hasattr(mod, "findings") else findings(case, r)):
                if mod.owns(kind, mech, case, r):
                    hits.append(f"{mech}: {summary}")
            if hits:
                break
        if hits:
            return True, "reproduced: " + "; ".join(hits)
        return False, f"re-execution ended with status {r.get('status')} and no finding (schedule dependent replay; " \
                      f"the recorded witness in the replay file is the evidence)"
    finally:
        shutil.rmtree(scratch, ignore_errors=True)
