"""
Harness subclasses of the repository's pool worker: logging begin / functor / end, injected faults,
data delays. Module level (not closures) so that they can be pickled for the spawn and forkserver
start methods; in a spawned worker the line monitor is re-installed first thing in run().
"""
import math
import multiprocessing

from windpyutils.parallel.own_proc_pools import BaseFunctorWorker, FunctorWorker, FunctorWorkerFactory

from vf import instr

MODULES = ["windpyutils.parallel.own_proc_pools", "windpyutils.buffers"]

# behaviours of the harness workers that a case switches on (set in the case child before any worker is created; inherited by
# forked workers): end_raises, quota_after_init, functor_forks_a_child
WORKER_OPTS = {}


def _noop():
    pass


class _HMixin:
    def _h_init(self, shared, fault, serial, end_delay, begin_delay, plan):
        self.sh = shared
        self.fault = fault          # None | ("begin",) | ("item", call, idx)
        self.serial = serial        # n-th worker object created for this pool
        self.end_delay = end_delay
        self.begin_delay = begin_delay
        self.items_done = 0
        self.plan = plan            # only used when the monitor has to be re-installed (spawn / forkserver)

    def run(self):
        if not instr.S.installed:
            # spawned / forkserver child: nothing was inherited
            instr.install(MODULES)
            instr.start_case(plan={tuple(k): tuple(v) for k, v in (self.plan or [])}, trace=False,
                             sleeping=self.sh.sleeping, progress=self.sh.progress)
        instr.reset_for_child(f"worker{self.wid}")
        super().run()

    def begin(self):
        self.sh.log("begin_enter", wid=self.wid, serial=self.serial)
        if self.begin_delay:
            self.sh.nap(self.begin_delay)      # a slow begin(): until_all_ready() has something to wait for
        if WORKER_OPTS.get("quota_in_begin") is not None:
            # the chunk limit is decided inside the worker process (read from its configuration in begin()): the object the
            # parent holds never learns about it
            self.max_chunks_per_worker = WORKER_OPTS["quota_in_begin"]
        if self.fault and self.fault[0] == "begin":
            self.sh.log("begin_raise", wid=self.wid)
            if self.fault[-1] == "system_exit":
                raise SystemExit(3)         # sys.exit() in user code: a BaseException that is no Exception
            raise RuntimeError("injected fault in begin()")
        self.sh.log("begin_exit", wid=self.wid)

    def __call__(self, x):
        if x is None:
            self.sh.log("item_none", wid=self.wid)
            return None
        if not (isinstance(x, (tuple, list)) and len(x) >= 3 and isinstance(x[0], int) and isinstance(x[2], (int, float))):
            # a piece of a data item (the item was a list and has been taken apart)
            self.sh.log("item_torn", wid=self.wid)
            return ("torn", repr(x)[:40])
        call, idx, dur = x[:3]
        self.items_done += 1
        self.sh.log("item", wid=self.wid, call=call, idx=idx)
        if self.fault and self.fault[0] == "item" and self.fault[1] == call and self.fault[2] == idx:
            self.sh.log("item_raise", wid=self.wid, call=call, idx=idx)
            if self.fault[-1] == "system_exit":
                raise SystemExit(3)         # sys.exit() in user code: a BaseException that is no Exception
            raise RuntimeError("injected fault in functor")
        if dur:
            self.sh.nap(dur)
        if WORKER_OPTS.get("functor_forks_a_child") and idx % 3 == 0:
            # the functor uses a helper process of its own (fork context) and waits for it
            hp = multiprocessing.get_context("fork").Process(target=_noop)
            hp.start()
            hp.join()
        flags = x[4] if len(x) > 4 else ""
        if flags:
            # twins (equal-but-different items) / exception objects as ordinary results: as in pool_engine._simple_functor
            if "E" in flags and int(idx) % 5 == 0 and not isinstance(idx, float):
                return ValueError(f"e{call}:{idx}")
            return (call, idx, type(idx).__name__)
        return (call, idx, "r" * x[3]) if len(x) > 3 and x[3] else (call, idx)

    def end(self):
        self.sh.log("end_enter", wid=self.wid)
        if self.end_delay and self.items_done:
            self.sh.nap(self.end_delay)        # a slow end(): whoever forgets to join this worker is caught
        self.sh.log("end_exit", wid=self.wid)
        if WORKER_OPTS.get("end_raises") and self.items_done:
            raise RuntimeError("injected fault at the end of end()")      # a clean-up hook that fails: the worker is done anyway


class HWorker(_HMixin, FunctorWorker):
    """Default (fork) context: the repository's FunctorWorker."""

    def __init__(self, shared, quota=math.inf, fault=None, serial=0, end_delay=0, begin_delay=0, plan=None):
        if WORKER_OPTS.get("quota_in_begin") is not None:
            FunctorWorker.__init__(self)            # no limit known in the parent
        elif WORKER_OPTS.get("quota_after_init"):
            # a subclass that calls super().__init__() and sets the documented attribute itself
            FunctorWorker.__init__(self)
            self.max_chunks_per_worker = quota
        else:
            FunctorWorker.__init__(self, max_chunks_per_worker=quota)
        self._h_init(shared, fault, serial, end_delay, begin_delay, plan)


_SPAWN = multiprocessing.get_context("spawn")
_FORKSERVER = multiprocessing.get_context("forkserver")


class HSpawnWorker(_HMixin, _SPAWN.Process, BaseFunctorWorker):
    def __init__(self, shared, quota=math.inf, fault=None, serial=0, end_delay=0, begin_delay=0, plan=None):
        _SPAWN.Process.__init__(self)
        BaseFunctorWorker.__init__(self, _SPAWN, quota)
        self._h_init(shared, fault, serial, end_delay, begin_delay, plan)


class HForkserverWorker(_HMixin, _FORKSERVER.Process, BaseFunctorWorker):
    def __init__(self, shared, quota=math.inf, fault=None, serial=0, end_delay=0, begin_delay=0, plan=None):
        _FORKSERVER.Process.__init__(self)
        BaseFunctorWorker.__init__(self, _FORKSERVER, quota)
        self._h_init(shared, fault, serial, end_delay, begin_delay, plan)


WORKER_CLASS = {"fork": HWorker, "spawn": HSpawnWorker, "forkserver": HForkserverWorker}


class HFactory(FunctorWorkerFactory):
    def __init__(self, shared, quota, faults, end_delay=0, begin_delay=0, start="fork", plan=None, slow_create=0):
        self.sh = shared
        self.quota = quota
        self.faults = faults or {}   # serial -> fault
        self.created = 0
        self.end_delay = end_delay
        self.begin_delay = begin_delay
        self.cls = WORKER_CLASS[start]
        self.plan = plan
        self.slow_create = slow_create

    def create(self):
        if self.slow_create and self.created >= 1:
            self.sh.nap(self.slow_create)      # an expensive worker constructor: the pool has no live worker meanwhile
        if WORKER_OPTS.get("prototype_copy"):
            # a factory that configures one prototype worker and hands out shallow copies of it: the copies share the
            # prototype's attribute objects (the begin_finished event among them)
            import copy
            if getattr(self, "_proto", None) is None:
                self._proto = self.cls(self.sh, self.quota, None, -1, self.end_delay, 0, self.plan)
            w = copy.copy(self._proto)
            w.serial = self.created
            w.fault = self.faults.get(self.created)
            w.items_done = 0
            self.created += 1
            return w
        w = self.cls(self.sh, self.quota, self.faults.get(self.created), self.created, self.end_delay,
                     self.begin_delay if self.created % 2 == 0 else 0, self.plan)
        self.created += 1
        return w
