"""
Engine for the FunctorPool / FactoryFunctorPool properties (C01-C04).

A *case* is a pool configuration + a history of imap / imap_unordered calls + data delays + a
delay plan (schedule perturbation at statements of the repository's code) + an optional fault.
Every case runs in a forked child that becomes its own session (so the whole process tree can be
killed), drives the REAL pool (real manager, queues, locks, events, processes), logs events of all
processes into one O_APPEND log under a shared sequence counter, and is watched by an in-run
watchdog that turns a hang into an observed *quiescent state* (deadlock witness) instead of a
wall-clock guess.
"""
import json
import math
import multiprocessing
import os
import signal
import sys
import threading
import time
import traceback
from multiprocessing.sharedctypes import RawValue

from vf import common, instr

QUIET_S = {"quick": 1.6, "thorough": 2.5}
HARD_LIMIT_S = {"quick": 40.0, "thorough": 75.0}
MAX_DELAY = 0.12

_FDS = {}


class Shared:
    """State shared by all processes of one case (inherited through fork / pickled on spawn)."""

    def __init__(self, ctx, logpath):
        self.logpath = logpath
        self.seq = ctx.Value("q", 0)
        self.sleeping = ctx.Value("i", 0)
        self.progress = RawValue("q", 0)
        self.begins = RawValue("q", 0)      # workers that entered begin() (written under the lock of seq)

    def log(self, ev, **kw):
        pid = os.getpid()
        fd = _FDS.get((pid, self.logpath))
        if fd is None:
            fd = os.open(self.logpath, os.O_WRONLY | os.O_APPEND | os.O_CREAT, 0o600)
            _FDS[(pid, self.logpath)] = fd
        kw["ev"] = ev
        kw["pid"] = pid
        with self.seq.get_lock():
            n = self.seq.value
            self.seq.value = n + 1
            kw["seq"] = n
            if ev == "begin_enter":
                self.begins.value += 1
            os.write(fd, (json.dumps(kw) + "\n").encode())

    def nap(self, seconds):
        """A data delay (slow functor / slow input): counted so that the watchdog never mistakes it for a hang."""
        if seconds <= 0:
            return
        with self.sleeping.get_lock():
            self.sleeping.value += 1
        try:
            time.sleep(seconds)
        finally:
            with self.sleeping.get_lock():
                self.sleeping.value -= 1


# ------------------------------------------------------------------------------------ workers


def _worker_classes():
    from vf import pool_workers
    return pool_workers


# ------------------------------------------------------------------------------------ inputs


def item_duration(call, i):
    d = call.get("durations") or {}
    mode = d.get("mode")
    if not mode:
        return 0
    cs = call["chunk"]
    chunk = i // cs
    if mode == "all":
        return d["t"]
    if mode == "slow_chunk":           # one designated chunk is the slowest (late head / late tail)
        return d["t"] if chunk == d["chunk"] and i % cs == 0 else 0
    if mode == "alternate":
        return d["t"] if chunk % 2 == d.get("phase", 0) and i % cs == 0 else 0
    if mode == "hash":
        h = (call.get("salt", 0) * 7919 + i * 104729) % 7
        return d["t"] if h == 0 else 0
    if mode == "decreasing":           # early chunks slowest: results arrive reversed
        return max(0.0, d["t"] * (1 - chunk / max(1, d.get("nchunks", 1)))) if i % cs == 0 else 0
    return 0


class _IntSeq:
    """A user-defined sequence: len + integer __getitem__ only (no slices, no __iter__)."""

    def __init__(self, items):
        self._items = list(items)

    def __len__(self):
        return len(self._items)

    def __getitem__(self, i):
        if not isinstance(i, int):
            raise TypeError("integer index only")
        return self._items[i]


import collections.abc  # noqa: E402
collections.abc.Sequence.register(_IntSeq)


def chunk_arg(call):
    """The chunk size handed to the API: 'everything in one chunk' may be spelled as a huge int or as infinity (the oracles
    work with call["chunk"], which is then larger than the input)."""
    return {"maxsize": sys.maxsize, "huge": 2 ** 100, "inf": math.inf}.get(call.get("chunk_special"), call["chunk"])


class _HintedIter:
    """An iterable whose __length_hint__ over-estimates (PEP 424 allows a hint to be wrong): e.g. a progress-bar wrapper with
    an approximate total, a view that skips records while iterating."""

    def __init__(self, items, extra):
        self._items = list(items)
        self._extra = extra

    def __iter__(self):
        return iter(self._items)

    def __length_hint__(self):
        return len(self._items) + self._extra


class _CallableIter:
    """A legal finite iterable that happens to be callable as well (a data-set object whose __call__ does something unrelated,
    an Enum class): the data are what iteration yields."""

    def __init__(self, items):
        self._items = list(items)

    def __iter__(self):
        return iter(self._items)

    def __call__(self, *a, **kw):
        return []           # unrelated to the data


class _SizedView:
    """Sized and re-iterable, no Sequence (no indexing), like a dict view or a set."""

    def __init__(self, items):
        self._items = list(items)

    def __len__(self):
        return len(self._items)

    def __iter__(self):
        return iter(self._items)


class _ArrayLike:
    """A sized, iterable, sliceable container with the truth-value rules of a numeric array: ambiguous (ValueError) for
    more than one element, the truth of the element for exactly one (taken to be 0 here), False when empty."""

    def __init__(self, items):
        self._items = list(items)

    def __len__(self):
        return len(self._items)

    def __iter__(self):
        return iter(self._items)

    def __getitem__(self, i):
        return _ArrayLike(self._items[i]) if isinstance(i, slice) else self._items[i]

    def __bool__(self):
        if len(self._items) > 1:
            raise ValueError("The truth value of an array with more than one element is ambiguous")
        return False


def make_input(call, ci, sh):
    n = call["n"]
    size = call.get("result_size", 0)
    items = [(ci, i, item_duration(call, i)) + ((size,) if size else ()) for i in range(n)]
    if call.get("item_size") and not (call.get("twins") or call.get("exc_results")):
        # data items larger than a pipe buffer (64 KiB): a put is not visible to the other side at once
        pad = "p" * call["item_size"]
        items = [(x[0], x[1], x[2], size, "", pad) for x in items]
    if call.get("twins") or call.get("exc_results"):
        # twins: every item is followed by an equal-but-different one (index as float: == and same hash, other type) and f
        # reports the type it saw; exc_results: f RETURNS (does not raise) an exception object for every fifth item
        flags = ("T" if call.get("twins") else "") + ("E" if call.get("exc_results") else "")
        out = []
        for ci_, i, dur in [(x[0], x[1], x[2]) for x in items]:
            out.append((ci_, i, dur, 0, flags))
            if call.get("twins"):
                out.append((ci_, float(i), 0, 0, flags))
        items = out
    if call.get("nones"):
        # None is a legitimate data item (a missing value the functor knows how to handle): f(None) is None
        out = []
        for i, x in enumerate(items):
            if i in call["nones"]:
                out.append(None)
            out.append(x)
        items = out
    if call.get("list_items"):
        # the data items are lists themselves (token lists, rows): an item is never to be taken for a chunk
        items = [list(x) if x is not None else None for x in items]
    form = call.get("form", "list")
    if form == "array_like":
        return _ArrayLike(items)
    if form == "hinted":
        return _HintedIter(items, 3)
    if form == "callable_iter":
        return _CallableIter(items)
    if form == "list":
        return items
    if form == "tuple":
        return tuple(items)
    if form == "range_like":
        return _SizedView(items)                 # a sized, re-iterable view that is no Sequence
    if form == "deque":
        import collections
        return collections.deque(items)         # a Sequence that cannot be sliced
    if form == "intseq":
        return _IntSeq(items)
    if form == "gen":
        return (x for x in items)
    if form == "iter":
        return iter(items)
    if form == "slow":
        slow = call.get("slow") or {}
        before = {int(k): v for k, v in (slow.get("before") or {}).items()}
        stop_delay = slow.get("stop", 0)

        def g():
            for i, x in enumerate(items):
                if i in before:
                    sh.nap(before[i])
                yield x
            sh.nap(stop_delay)      # StopIteration arrives late
        return g()
    raise ValueError(form)


# ------------------------------------------------------------------------------------ the case child


class _BodyError(Exception):
    pass


def _first_in_other_thread(gen, sh):
    """The first result is taken by a helper thread (a prefetcher, run_in_executor), the rest by the caller: one generator used
    by two threads one after the other. Returns an iterator over all the results."""
    box = []

    def take():
        try:
            box.append(("ok", next(gen)))
        except StopIteration:
            box.append(("stop", None))
        except BaseException as e:      # noqa: B036 - handed over to the caller
            box.append(("exc", e))
    t = threading.Thread(target=take, name="vf:first-next")
    t.start()
    t.join()
    sh.log("first_next_in_other_thread")
    if box[0][0] == "exc":
        raise box[0][1]
    if box[0][0] == "ok":
        yield box[0][1]
        yield from gen


class _ExitInOtherThread:
    """with-protocol around a pool: entered by the calling thread, left by another one (a context handed over to a worker thread,
    an asyncio task finished by the loop's executor)."""

    def __init__(self, pool, sh):
        self.pool, self.sh = pool, sh

    def __enter__(self):
        return self.pool.__enter__()

    def __exit__(self, et, ev, tb):
        box = []

        def leave():
            try:
                box.append(("ok", self.pool.__exit__(et, ev, tb)))
            except BaseException as e:      # noqa: B036
                box.append(("exc", e))
        t = threading.Thread(target=leave, name="vf:leaver")
        t.start()
        t.join()
        self.sh.log("pool_left_by_another_thread")
        if box[0][0] == "exc":
            raise box[0][1]
        return box[0][1]


def _frames_signature():
    sig = []
    for tid, fr in sys._current_frames().items():
        if tid == threading.get_ident():
            continue
        sig.append((tid, fr.f_code.co_filename, fr.f_lineno, id(fr)))
    return tuple(sorted(sig))


def _session_procs(sid, me):
    """(pid, state, cpu ticks) of all other processes of our session."""
    out = []
    for name in os.listdir("/proc"):
        if not name.isdigit():
            continue
        pid = int(name)
        if pid == me:
            continue
        try:
            with open(f"/proc/{pid}/stat") as f:
                s = f.read()
        except OSError:
            continue
        rp = s.rfind(")")
        parts = s[rp + 2:].split()
        try:
            if int(parts[3]) != sid:
                continue
            out.append((pid, parts[0], int(parts[11]) + int(parts[12])))
        except (IndexError, ValueError):
            continue
    return sorted(out)


def _stack_dump(limit=14):
    dump = {}
    names = {t.ident: f"{t.__class__.__name__}:{t.name}" for t in threading.enumerate()}
    for tid, fr in sys._current_frames().items():
        if tid == threading.get_ident():
            continue
        lines = []
        for fs in traceback.extract_stack(fr)[-limit:]:
            lines.append(f"{os.path.basename(fs.filename)}:{fs.lineno}:{fs.name}")
        dump[names.get(tid, str(tid))] = lines
    return dump


def _consumer_state(pool, main_ident):
    st = {}
    try:
        st["sending_work"] = bool(pool._sending_work)
        st["data_cnt"] = int(pool._data_cnt)
    except Exception as e:
        st["flags_error"] = repr(e)
    fr = sys._current_frames().get(main_ident)
    depth = 0
    while fr is not None and depth < 60:
        if fr.f_code.co_name in ("imap", "imap_unordered") and "finished_cnt" in fr.f_locals:
            st["finished_cnt"] = fr.f_locals.get("finished_cnt")
            st["in"] = fr.f_code.co_qualname
            b = fr.f_locals.get("buffer")
            if b is not None:
                try:
                    st["reorder_buffer_len"] = len(b)
                    st["reorder_waiting_for"] = b.waiting_for()
                except Exception:
                    pass
            break
        fr = fr.f_back
        depth += 1
    top = sys._current_frames().get(main_ident)
    chain = []
    while top is not None and len(chain) < 40:
        chain.append(top.f_code.co_qualname)
        top = top.f_back
    st["consumer_stack"] = chain[:12]
    for name, q in (("results_qsize", getattr(pool, "_results_queue", None)),
                    ("work_qsize", getattr(pool, "_work_queue", None)),
                    ("replace_qsize", getattr(pool, "_replace_queue", None))):
        if q is not None:
            try:
                st[name] = q.qsize()
            except Exception as e:
                st[name] = f"error {e!r}"
    try:
        st["workers_alive"] = sum(1 for p in pool.procs if p.is_alive())
        st["workers"] = len(pool.procs)
    except Exception as e:
        st["workers_error"] = repr(e)
    st["threads"] = sorted(f"{t.__class__.__name__}" for t in threading.enumerate()
                           if t.__class__.__name__ in ("SendWorkThread", "ReplaceWorkerThread"))
    return st


class Watchdog(threading.Thread):
    def __init__(self, sh, quiet, outpath, state):
        super().__init__(name="vf:watchdog", daemon=True)
        self.sh = sh
        self.quiet = quiet
        self.outpath = outpath
        self.state = state          # dict shared with the driver: phase, pool, result-so-far
        self.main_ident = threading.main_thread().ident
        self.stop_flag = False

    def run(self):
        sid = os.getsid(0)
        me = os.getpid()
        self._last = None
        self._since = time.monotonic()
        self._procs_last = None
        self._ll = None             # livelock window: (start time, event seq, line events, cpu ticks of the others, next sample)
        while not self.stop_flag:
            time.sleep(0.1)
            try:
                if self._tick(sid, me):
                    return
            except OSError as e:
                # out of descriptors: give the reserve back and go on
                for fd in self.state.pop("reserve", []):
                    try:
                        os.close(fd)
                    except OSError:
                        pass
                self.state.setdefault("notes", []).append({"watchdog_oserror": repr(e)})

    def _tick(self, sid, me):
        """One sample; returns True when the run was finished (quiescent state found)."""
        cur = (self.sh.seq.value, self.sh.progress.value, self.sh.sleeping.value, _frames_signature())
        now = time.monotonic()
        if self._livelock_tick(cur, now, sid, me):
            return True
        b0 = self.state.get("begins_at_exit")
        if b0 is not None and self.state.get("phase") == "pool_exit" and self.sh.begins.value - b0 > self.state.get("storm_bound", 12):
            # bounded progress while the context is left: nobody has any use for a new worker now (at most the replacements of
            # the last call may still be on their way into begin()), and here they are started by the dozen - this never ends
            procs = _session_procs(sid, me)
            self.state["finish"]("deadlock", {"phase": "pool_exit", "call": self.state.get("call"), "stacks": _stack_dump(),
                                              "processes": [(p, s_) for p, s_, _ in procs], "storm": True,
                                              "workers_started_while_leaving": int(self.sh.begins.value - b0)})
            return True
        if cur != self._last or cur[2] != 0:
            self._last = cur
            self._since = now
            self._procs_last = None
            return False
        if now - self._since < 0.5:
            return False
        procs = _session_procs(sid, me)
        if self._procs_last is None or procs != self._procs_last or any(st in ("R", "D") for _, st, _ in procs):
            if self._procs_last is not None and procs != self._procs_last:
                self._since = now - 0.5      # somebody still burns cpu: restart the quiet period
            self._procs_last = procs
            return False
        if now - self._since < self.quiet:
            return False
        # quiescent: nobody moved for `quiet` seconds, nobody sleeps in an injected/data delay, every other
        # process of the session is blocked (state S) and used no cpu, all thread stacks are frozen
        pool = self.state.get("pool")
        wit = {"phase": self.state.get("phase"), "call": self.state.get("call"), "stacks": _stack_dump(),
               "processes": [(p, s) for p, s, _ in procs], "quiet_s": round(now - self._since, 2)}
        if pool is not None:
            try:
                wit["pool_state"] = _consumer_state(pool, self.state.get("driver_ident", self.main_ident))
            except Exception as e:
                wit["pool_state_error"] = repr(e)
        self.state["finish"]("deadlock", wit)
        return True


def _watchdog_livelock_tick(self, cur, now, sid, me):
    """Bounded progress instead of an unbounded 'eventually': for LIVELOCK_S seconds no event was logged, nobody was in an
    injected or data delay, no other process of the session used any cpu, and this process executed only a trickle of
    statements (a retry loop around a timeout) - nothing can change any more, the run is declared stuck."""
    seq, progress, sleeping = cur[0], cur[1], cur[2]
    if sleeping != 0 or self._ll is None or seq != self._ll[1]:
        self._ll = (now, seq, progress, None, now)
        return False
    start, _, p0, ticks0, nxt = self._ll
    if now < nxt:
        return False
    procs = _session_procs(sid, me)
    ticks = sorted((p, t) for p, st, t in procs)
    if any(st in ("R", "D") for _, st, _ in procs) or (ticks0 is not None and ticks != ticks0) or \
            progress - p0 > 150 * max(1.0, now - start):
        self._ll = (now, seq, progress, ticks, now + 1.0)
        return False
    self._ll = (start, seq, p0, ticks, now + 1.0)
    if now - start < self.livelock_s:
        return False
    pool = self.state.get("pool")
    wit = {"phase": self.state.get("phase"), "call": self.state.get("call"), "stacks": _stack_dump(),
           "processes": [(p, s) for p, s, _ in procs], "quiet_s": round(now - start, 2), "livelock": True,
           "statements_in_window": int(progress - p0)}
    if pool is not None:
        try:
            wit["pool_state"] = _consumer_state(pool, self.state.get("driver_ident", self.main_ident))
        except Exception as e:
            wit["pool_state_error"] = repr(e)
    self.state["finish"]("deadlock", wit)
    return True


Watchdog._livelock_tick = _watchdog_livelock_tick
Watchdog.livelock_s = 12.0


def run_case_here(case, outpath, scratch):
    """Runs in the forked case child; writes the result JSON to outpath and exits the process."""
    os.setsid()
    try:
        devnull = os.open(os.path.join(scratch, "case.stderr"), os.O_WRONLY | os.O_CREAT | os.O_TRUNC, 0o600)
        os.dup2(devnull, 1)
        os.dup2(devnull, 2)
    except OSError:
        pass
    t0 = time.monotonic()
    from windpyutils.parallel import own_proc_pools as opp
    ctx = multiprocessing.get_context(case.get("start", "fork"))
    sh = Shared(ctx, os.path.join(scratch, "events.log"))
    pw = _worker_classes()
    pw.WORKER_OPTS.clear()
    pw.WORKER_OPTS.update(case.get("worker_opts") or {})
    held_fds = []
    if case.get("many_fds"):
        # the caller holds more than 1024 descriptors (FD_SETSIZE): everything opened from now on has a high number
        import resource
        soft, hard = resource.getrlimit(resource.RLIMIT_NOFILE)
        want = case["many_fds"] + 400
        if soft < want <= hard or hard == resource.RLIM_INFINITY:
            resource.setrlimit(resource.RLIMIT_NOFILE, (want, hard))
        try:
            held_fds = [os.open("/dev/null", os.O_RDONLY) for _ in range(case["many_fds"])]
        except OSError:
            pass
    start_method = case.get("start", "fork")
    plan_items = [[[r, q, rel, o], [k, a]] for r, q, rel, o, k, a in case.get("plan", [])]
    tier = case.get("tier", "quick")
    state = {"phase": "setup", "pool": None, "calls": [], "done": False}
    lock = threading.Lock()

    def finish(status, witness=None):
        with lock:
            if state["done"]:
                return
            state["done"] = True
        for fd in state.pop("reserve", []):
            try:
                os.close(fd)
            except OSError:
                pass
        trace = list(instr.S.trace)
        res = {
            "status": status, "witness": witness, "calls": state["calls"], "phase": state["phase"],
            "wall": round(time.monotonic() - t0, 3),
            "fired": [list(x) for x in instr.S.fired],
            "covered": sorted(f"{q}+{r}" for q, r in instr.S.covered),
            "switch_pairs": len(instr.switch_pairs(trace)),
            "switch_sig": common.h64(sorted(instr.switch_pairs(trace))),
            "trace_len": len(trace),
            "occ": [[k[0], k[1], k[2], v] for k, v in instr.S.occ.items()] if case.get("want_occ") else None,
            "line_events": int(sh.progress.value),
            "notes": state.get("notes", []),
            "thread_exceptions": state.get("thread_exceptions", []),
        }
        try:
            with open(os.path.join(scratch, "events.log")) as f:
                res["events"] = [json.loads(l) for l in f if l.strip()]
        except OSError:
            res["events"] = []
        tmp = outpath + ".tmp"
        with open(tmp, "w") as f:
            json.dump(res, f, default=repr)
        os.replace(tmp, outpath)
        os._exit(0)

    state["finish"] = finish

    def thread_died(args):
        # an exception that kills a thread of the code under test (feeder, replacer) is part of the witness
        state.setdefault("thread_exceptions", []).append(
            f"{getattr(args.thread, 'name', '?')} ({type(args.thread).__name__}): {args.exc_type.__name__}: {args.exc_value}")
        sys.__stderr__.write("".join(traceback.format_exception(args.exc_type, args.exc_value, args.exc_traceback))[-1500:])
    threading.excepthook = thread_died
    # descriptors held in reserve: a case may exhaust the descriptor table of this process (a leak in the code under test,
    # a tight RLIMIT_NOFILE) and the watchdog must still be able to read /proc and to write the result
    state["reserve"] = [os.open("/dev/null", os.O_RDONLY) for _ in range(16)]
    plan = {}
    for role, qn, rel, occ, kind, arg in case.get("plan", []):
        plan[(role, qn, rel, occ)] = (kind, arg)
    instr.start_case(plan=plan, trace=True, sleeping=sh.sleeping, progress=sh.progress,
                     yield_every=case.get("yield_every", 0))
    if case.get("instr_hooks"):
        instr.enable_instruction_hooks(set(case["instr_hooks"]))
    wd = Watchdog(sh, QUIET_S[tier], outpath, state)
    wd.livelock_s = (12.0 if tier == "quick" else 20.0) * case.get("limit_factor", 1)
    wd.start()

    def drive():
        state["driver_ident"] = threading.get_ident()
        wq = case.get("wq", 1.0)
        rq = case.get("rq")
        quota = case.get("quota") or math.inf
        if case.get("frac_quota") and quota != math.inf:
            quota = quota + case["frac_quota"]      # a chunk limit that is no whole number (2.5): legal for a float parameter
        if case.get("float_quota") and quota != math.inf:
            quota = float(quota)           # the parameter is annotated as float: 3.0 is as legal as 3
        if case.get("nofile"):
            import resource
            resource.setrlimit(resource.RLIMIT_NOFILE, (case["nofile"], resource.getrlimit(resource.RLIMIT_NOFILE)[1]))
        faults = {int(k): tuple(v) for k, v in (case.get("faults") or {}).items()}
        if case["pool"] == "factory":
            pool = opp.FactoryFunctorPool(case["workers"],
                                          pw.HFactory(sh, quota, faults, case.get("end_delay", 0), case.get("begin_delay", 0),
                                                      start_method, plan_items, case.get("slow_create", 0)),
                                          context=ctx, work_queue_maxsize=wq, results_queue_maxsize=rq,
                                          join_timeout=case.get("join_timeout"), **({"verbose": True} if case.get("verbose") else {}))
        else:
            wcls = pw.WORKER_CLASS[start_method]
            workers = [wcls(sh, 0 if (case.get("zero_quota_worker") and i == 0) else (case.get("functor_quota") or math.inf),
                            faults.get(i), i, case.get("end_delay", 0),
                            case.get("begin_delay", 0) if i % 2 == 0 else 0, plan_items) for i in range(case["workers"])]
            pool = opp.FunctorPool(workers, context=ctx, work_queue_maxsize=wq, results_queue_maxsize=rq,
                                   join_timeout=case.get("join_timeout"), **({"verbose": True} if case.get("verbose") else {}))
        state["pool"] = pool
        state["phase"] = "pool_enter"
        sh.log("pool_enter")
        body_raises = case.get("body_raises")
        try:
          with (_ExitInOtherThread(pool, sh) if case.get("exit_in_other_thread") else pool):
            sh.log("pool_entered", pids=[p.pid for p in pool.procs])
            inner_pool = None
            if case.get("nested_pool"):
                # a second pool alive at the same time: its ordered imap feeds the calls of the first one (a two-stage pipeline)
                icls = pw.WORKER_CLASS[start_method]
                inner_pool = opp.FunctorPool([icls(sh, math.inf, None, 100 + i_, 0, 0, plan_items) for i_ in range(2)], context=ctx,
                                             work_queue_maxsize=wq, results_queue_maxsize=rq)
                inner_pool.__enter__()
                sh.log("inner_pool_entered")
            if case.get("ready_first"):
                state["phase"] = "until_all_ready"
                pool.until_all_ready()
                sh.log("until_all_ready_return")
            ready_stop = threading.Event()
            if case.get("ready_during"):
                # until_all_ready() called from a side thread WHILE calls run (and workers are being replaced)
                def poll_ready():
                    while not ready_stop.is_set():
                        snap = list(pool.procs)
                        try:
                            pool.until_all_ready()
                        except Exception as e:
                            sh.log("ready_during_raise", exc=f"{type(e).__name__}: {e}")
                            return
                        # workers are identified by wid (assigned before a worker enters pool.procs); the pid of a freshly
                        # forked replacement may not be visible yet in this thread although its begin() already ran
                        sh.log("ready_during_return", wids=[getattr(p, "wid", None) for p in snap])
                        time.sleep(0.01)
                threading.Thread(target=poll_ready, name="vf:ready", daemon=True).start()
            pre_gens = None
            if case.get("create_all_first"):
                # the caller builds all its result generators first and consumes them one after the other
                pre_gens = [(pool.imap if c_["ordered"] else pool.imap_unordered)(make_input(c_, k_, sh), chunk_arg(c_))
                            for k_, c_ in enumerate(case["calls"])]
            gen = prev_gen = None
            for ci, call in enumerate(case["calls"]):
                state["phase"] = "call"
                state["call"] = ci
                rec = {"yields": [], "completed": False, "exception": None}
                state["calls"].append(rec)
                got_one = threading.Semaphore(0)
                data = make_input(call, ci, sh) if pre_gens is None else None
                if inner_pool is not None and pre_gens is None:
                    stage1 = inner_pool.imap(data, 3)
                    data = ((y_[0], y_[1], 0) for y_ in stage1)     # the first stage's result (call, idx) becomes an item again
                if call.get("request_response") and pre_gens is None:
                    # a request/response stream: item i+1 exists only after the result of item i was received (chunk size 1)
                    items_ = list(data)

                    def rr_stream(items_=items_):
                        for k_, x_ in enumerate(items_):
                            if k_:
                                got_one.acquire()
                            yield x_
                    data = rr_stream()
                sh.log("call_start", call=ci)
                try:
                    if case.get("release_prev_mid_call") and ci:
                        prev_gen = gen          # the (exhausted) generator of the previous call is still referenced by the caller ...
                    gen = pre_gens[ci] if pre_gens is not None else \
                        (pool.imap if call["ordered"] else pool.imap_unordered)(data, chunk_arg(call))
                    src = _first_in_other_thread(gen, sh) if call.get("first_next_in_thread") else gen
                    for y in src:
                        got_one.release()
                        rec["yields"].append(_compact(y, call))
                        if prev_gen is not None:
                            prev_gen = None     # ... and is released (and collected) while this call is being read
                            import gc
                            gc.collect()
                            sh.log("previous_generator_released_mid_call")
                        if call.get("abandon_after") is not None and len(rec["yields"]) >= call["abandon_after"]:
                            # the caller stops consuming here and keeps the suspended generator (as a traceback would): the
                            # pool is left with this call unfinished
                            state["kept_generators"] = state.get("kept_generators", []) + [gen]
                            rec["abandoned"] = True
                            sh.log("call_abandoned", call=ci)
                            break
                    else:
                        rec["completed"] = True
                except instr.InjectedFault:
                    raise
                except Exception as e:
                    rec["exception"] = f"{type(e).__name__}: {e}"
                    sh.log("call_exception", call=ci, exc=type(e).__name__)
                    rec["traceback"] = traceback.format_exc()[-1500:]
                    break
                if rec.get("abandoned"):
                    break
                sh.log("call_end", call=ci)
                rec["after"] = {}
                for name, q in (("results_qsize", pool._results_queue), ("work_qsize", pool._work_queue),
                                ("replace_qsize", getattr(pool, "_replace_queue", None))):
                    if q is not None:
                        try:
                            rec["after"][name] = q.qsize()
                        except Exception:
                            pass
                if call.get("ready_after"):
                    state["phase"] = "until_all_ready"
                    pool.until_all_ready()
                    sh.log("until_all_ready_return")
                if call.get("pause_after"):
                    sh.nap(call["pause_after"])
            ready_stop.set()
            if inner_pool is not None:
                state["phase"] = "inner_pool_exit"
                inner_pool.__exit__(None, None, None)
            state["storm_bound"] = 2 * case["workers"] + 8
            state["begins_at_exit"] = sh.begins.value
            state["phase"] = "pool_exit"
            sh.log("pool_exit_enter", pids=[p.pid for p in pool.procs])
            if body_raises:
                # the with-block ends with an exception (after fully consumed calls): the workers are still to be stopped
                # in an orderly way - end() in every one of them, nobody left running
                raise _BodyError("the body of the pool context raises")
        except _BodyError:
            sh.log("body_exception_propagated")
        state["pool"] = None
        sh.log("pool_exit_return")
        if state.get("kept_generators"):
            sh.nap(0.7)        # whatever the threads of the unfinished call still do (start a worker?) shows up in the log
        # who is still running? (every pid that ever logged begin_enter)
        pids = set()
        try:
            with open(os.path.join(scratch, "events.log")) as f:
                for l in f:
                    e = json.loads(l)
                    if e["ev"] == "begin_enter":
                        pids.add(e["pid"])
        except OSError:
            pass
        alive = []
        for pid in sorted(pids):
            try:
                with open(f"/proc/{pid}/stat") as f:
                    s = f.read()
                fields = s[s.rfind(")") + 2:].split()
                stt = fields[0]
                # pid numbers are recycled quickly when 16 shards fork thousands of processes: only a process of OUR
                # session (the case child called setsid) whose parent is this process is one of our workers
                if stt not in ("Z", "X") and int(fields[3]) == os.getsid(0) and int(fields[1]) == os.getpid():
                    alive.append((pid, stt))
            except OSError:
                pass
        state.setdefault("notes", []).append({"alive_after_exit": alive,
                                              "active_children": [c.name for c in multiprocessing.active_children()]})
        state["phase"] = "done"

    if case.get("kind", "pool") != "pool":
        other = DRIVERS[case["kind"]]

        def drive():  # noqa: F811
            state["driver_ident"] = threading.get_ident()
            other(case, sh, state)
            state["phase"] = "done"

    if case.get("side_thread"):
        # fault runs: the consumer may legitimately hang (a raising functor never delivers its chunk); it runs in
        # a side thread and the run ends when it finishes or when the tree is quiescent
        t = threading.Thread(target=lambda: _guard(drive, finish), name="vf:consumer", daemon=True)
        t.start()
        t.join()
        finish("completed")
    else:
        _guard(drive, finish)
        finish("completed")


_fork_counter = [0]


def _label_forked_children():
    """Processes forked by the code under test (FunctorMap / mul_p_map workers) get their own role and counters."""
    def before():
        _fork_counter[0] += 1

    def in_child():
        instr.reset_for_child(f"worker{_fork_counter[0] - 1}")
    os.register_at_fork(before=before, after_in_child=in_child)


def _compact(y, call):
    """Large result payloads are checked here and replaced by a marker so that result files stay small."""
    size = call.get("result_size", 0)
    if size and isinstance(y, tuple) and len(y) == 3:
        return (y[0], y[1], "OK" if y[2] == "r" * size else f"BAD({len(y[2])})")
    if isinstance(y, BaseException):
        return ("EXC", type(y).__name__, str(y))
    if (call.get("twins") or call.get("exc_results")) and isinstance(y, tuple) and len(y) == 3:
        return (y[0], repr(y[1]), y[2])
    return y


def _simple_functor(sh):
    def f(x):
        if x is None:
            return None
        if not (isinstance(x, (tuple, list)) and len(x) >= 3 and isinstance(x[0], int) and isinstance(x[2], (int, float))):
            # a piece of a data item (the item was a list and has been taken apart): f answers, the oracle sees a result that
            # is f(x) of no input
            sh.log("item_torn")
            return ("torn", repr(x)[:40])
        call, idx, dur = x[:3]
        sh.log("item", call=call, idx=int(idx))
        if dur:
            sh.nap(dur)
        flags = x[4] if len(x) > 4 else ""
        if flags:
            if "E" in flags and int(idx) % 5 == 0 and not isinstance(idx, float):
                return ValueError(f"e{call}:{idx}")           # returned, not raised
            return (call, idx, type(idx).__name__)
        return (call, idx, "r" * x[3]) if len(x) > 3 and x[3] else (call, idx)     # large results fill the result pipe
    return f


def drive_fmap(case, sh, state):
    from windpyutils.parallel.pools import FunctorMap
    _label_forked_children()
    state["phase"] = "pool_enter"
    with FunctorMap(_simple_functor(sh), case["workers"]) as m:
        pre = None
        if case.get("create_all_first"):
            # the caller builds all its result generators first (e.g. to chain them) and consumes them one after another
            pre = []
            try:
                for ci, call in enumerate(case["calls"]):
                    pre.append(m(make_input(call, ci, sh), chunk_arg(call)))
            except Exception as e:
                rec = {"yields": [], "completed": False, "exception": f"creating the generator of call {len(pre)}: {type(e).__name__}: {e}"}
                state["calls"].append(rec)
                pre = None
                case = dict(case, calls=[])
        for ci, call in enumerate(case["calls"]):
            state["phase"] = "call"
            state["call"] = ci
            rec = {"yields": [], "completed": False, "exception": None}
            state["calls"].append(rec)
            sh.log("call_start", call=ci)
            try:
                g_ = pre[ci] if pre is not None else m(make_input(call, ci, sh), chunk_arg(call))
                for y in (_first_in_other_thread(g_, sh) if call.get("first_next_in_thread") else g_):
                    rec["yields"].append(_compact(y, call))
                rec["completed"] = True
            except instr.InjectedFault:
                raise
            except Exception as e:
                rec["exception"] = f"{type(e).__name__}: {e}"
                rec["traceback"] = traceback.format_exc()[-1500:]
                break
            sh.log("call_end", call=ci)
            if call.get("pause_after"):
                sh.log("idle", seconds=call["pause_after"])
                _idle(sh, call["pause_after"])
        state["phase"] = "pool_exit"
    sh.log("pool_exit_return")


def _idle(sh, seconds):
    """The caller does something else for a while: nothing of the library runs. Counted as a pending delay so that the
    watchdog does not take the pause for a hang."""
    sh.nap(seconds)


def drive_mulpmap(case, sh, state):
    from windpyutils.parallel.maps import mul_p_map
    _label_forked_children()
    f = _simple_functor(sh)
    for ci, call in enumerate(case["calls"]):
        state["phase"] = "call"
        state["call"] = ci
        rec = {"yields": [], "completed": False, "exception": None}
        state["calls"].append(rec)
        sh.log("call_start", call=ci)
        try:
            out = mul_p_map(f, make_input(call, ci, sh), case["workers"])
            if not isinstance(out, list):
                rec["exception"] = f"mul_p_map returned {type(out).__name__}, not a list"
                break
            rec["yields"] = [_compact(y, call) for y in out]
            rec["completed"] = True
        except instr.InjectedFault:
            raise
        except Exception as e:
            rec["exception"] = f"{type(e).__name__}: {e}"
            rec["traceback"] = traceback.format_exc()[-1500:]
            break
        sh.log("call_end", call=ci)


DRIVERS = {"fmap": drive_fmap, "mulpmap": drive_mulpmap}


def _guard(fn, finish):
    try:
        fn()
    except BaseException as e:
        finish("driver-exception", {"exception": f"{type(e).__name__}: {e}", "traceback": traceback.format_exc()[-3000:]})


def run_case(case, scratch):
    """Forks the case child, waits (hard wall limit -> inconclusive), kills the process group. Returns result dict."""
    for f in os.listdir(scratch):
        try:
            os.remove(os.path.join(scratch, f))
        except OSError:
            pass
    outpath = os.path.join(scratch, "result.json")
    tier = case.get("tier", "quick")
    limit = HARD_LIMIT_S[tier] * case.get("limit_factor", 1)
    pid = os.fork()
    if pid == 0:
        try:
            if case.get("in_mp_child"):
                # the whole case runs inside a child process of the multiprocessing package (a service process, a worker of an
                # outer pool): multiprocessing.parent_process() is set, current_process() is a Process object
                p_ = multiprocessing.get_context("fork").Process(target=run_case_here, args=(case, outpath, scratch), name="vf-service")
                p_._bootstrap()
                os._exit(0)
            run_case_here(case, outpath, scratch)
        finally:
            os._exit(7)
    t0 = time.monotonic()
    status = None
    while True:
        # look without reaping: while the case child is an unreaped zombie its pid (= the process group id of the whole
        # case) cannot be recycled, so the killpg below can never hit somebody else's group
        try:
            info = os.waitid(os.P_PID, pid, os.WEXITED | os.WNOWAIT | os.WNOHANG)
        except ChildProcessError:
            info = True
        if info:
            status = 0
            break
        if time.monotonic() - t0 > limit:
            break
        time.sleep(0.01)
    try:
        os.killpg(pid, signal.SIGKILL)
    except (ProcessLookupError, PermissionError):
        pass
    try:
        _, st = os.waitpid(pid, 0)
        if status is not None:
            status = st
    except ChildProcessError:
        pass
    if os.path.exists(outpath):
        try:
            with open(outpath) as f:
                return json.load(f)
        except Exception as e:
            return {"status": "inconclusive", "reason": f"unreadable result: {e}", "calls": [], "events": []}
    reason = f"hard wall limit {limit}s without quiescence" if status is None else f"case child exited ({status}) without result"
    tail = ""
    try:
        with open(os.path.join(scratch, "case.stderr"), errors="replace") as f:
            tail = f.read()[-800:]
    except OSError:
        pass
    return {"status": "inconclusive", "reason": reason, "stderr": tail, "calls": [], "events": []}


# ------------------------------------------------------------------------------------ oracles


def value_findings(case, result):
    """C01 oracle per call (and leaks between calls). Returns list of (mechanism, summary)."""
    out = []
    ncalls = len(case["calls"])
    for ci, rec in enumerate(result.get("calls", [])):
        call = case["calls"][ci]
        if rec.get("exception"):
            out.append(("call-raised", f"call {ci} ({_cd(call)}) raised {rec['exception']}"))
            continue
        if not rec.get("completed"):
            continue        # the run ended inside this call (deadlock): not a value verdict
        ys = [tuple(y) if isinstance(y, (list, tuple)) else y for y in rec["yields"]]
        if call.get("twins") or call.get("exc_results"):
            want_seq = []
            for i in range(call["n"]):
                if call.get("exc_results") and i % 5 == 0:
                    want_seq.append(("EXC", "ValueError", f"e{ci}:{i}"))
                else:
                    want_seq.append((ci, repr(i), "int"))
                if call.get("twins"):
                    want_seq.append((ci, repr(float(i)), "float"))
            got_seq = [tuple(y) if isinstance(y, (list, tuple)) else y for y in rec["yields"]]
            if not call["ordered"]:
                # unordered: the chunks may arrive in any order, each chunk keeps its inner order
                cs_ = call["chunk"]
                want_chunks = sorted((tuple(want_seq[k:k + cs_]) for k in range(0, len(want_seq), cs_)), key=repr)
                got_chunks = sorted((tuple(got_seq[k:k + cs_]) for k in range(0, len(got_seq), cs_)), key=repr)
                if len(got_seq) == len(want_seq) and got_chunks != want_chunks:
                    # chunks of equal length may interleave only at chunk borders; the last (shorter) chunk may sit anywhere:
                    # fall back to matching every wanted chunk as a contiguous run
                    rest = list(got_seq)
                    ok = True
                    for ch in sorted((tuple(want_seq[k:k + cs_]) for k in range(0, len(want_seq), cs_)), key=len, reverse=True):
                        pos = next((k for k in range(0, len(rest) - len(ch) + 1) if tuple(rest[k:k + len(ch)]) == ch), None)
                        if pos is None:
                            ok = False
                            break
                        del rest[pos:pos + len(ch)]
                    if ok and not rest:
                        got_chunks = want_chunks
                if got_chunks == want_chunks and len(got_seq) == len(want_seq):
                    continue
            if got_seq != want_seq:
                k = next((j for j, (a, b) in enumerate(zip(got_seq, want_seq)) if a != b), min(len(got_seq), len(want_seq)))
                out.append(("wrong-value", f"call {ci} ({_cd(call)}, {'equal-but-different twin items' if call.get('twins') else ''}"
                            f"{' f returns exception objects' if call.get('exc_results') else ''}): result #{k} is "
                            f"{got_seq[k] if k < len(got_seq) else 'missing'}, f(x) is {want_seq[k] if k < len(want_seq) else 'nothing'} "
                            f"({len(got_seq)} results, {len(want_seq)} expected)"))
            continue
        if call.get("nones"):
            want_seq = []
            for i in range(call["n"]):
                if i in call["nones"]:
                    want_seq.append(None)
                want_seq.append((ci, i))
            got_seq = [y[:2] if isinstance(y, tuple) else y for y in ys]
            if call["ordered"]:
                if got_seq != want_seq:
                    out.append(("lost-result" if len(got_seq) < len(want_seq) else "reordered-result",
                                f"call {ci} ({_cd(call)}, input contains None items at {sorted(call['nones'])}): yielded "
                                f"{len(got_seq)} results {got_seq[:8]}..., expected {len(want_seq)}: {want_seq[:8]}..."))
                continue
            if sorted(map(repr, got_seq)) != sorted(map(repr, want_seq)):
                out.append(("lost-result", f"unordered call {ci} with None items: yielded {len(got_seq)} results, expected "
                            f"{len(want_seq)} (None results: {got_seq.count(None)} of {want_seq.count(None)})"))
            continue
        size = call.get("result_size", 0)
        if size:
            badblob = [y[:2] for y in ys if not (isinstance(y, tuple) and len(y) == 3 and y[2] == "OK")]
            if badblob:
                out.append(("invented-result", f"call {ci}: result payload of {badblob[:3]} is not f(x)"))
                continue
            ys = [y[:2] for y in ys]
        n, cs = call["n"], call["chunk"]
        want = [(ci, i) for i in range(n)]
        foreign = [y for y in ys if not (isinstance(y, tuple) and len(y) == 2 and y[0] == ci)]
        if foreign:
            inv = [y for y in foreign if not (isinstance(y, tuple) and len(y) == 2 and isinstance(y[0], int)
                                               and 0 <= y[0] < ncalls and 0 <= y[1] < case["calls"][y[0]]["n"])]
            if inv:
                out.append(("invented-result", f"call {ci} yielded {inv[:3]} which is no f(x) of any input"))
            else:
                out.append(("leak-from-other-call", f"call {ci} ({_cd(call)}) yielded results of call(s) "
                            f"{sorted({y[0] for y in foreign})}: {foreign[:4]}"))
            continue
        idx = [y[1] for y in ys]
        if sorted(idx) != list(range(n)):
            missing = sorted(set(range(n)) - set(idx))
            dup = sorted({i for i in idx if idx.count(i) > 1})
            if missing:
                out.append(("lost-result", f"call {ci} ({_cd(call)}) yielded {len(idx)} of {n} results; missing "
                            f"indices {missing[:8]}"))
            if dup:
                out.append(("duplicated-result", f"call {ci} ({_cd(call)}) yielded indices {dup[:8]} more than once"))
            if not missing and not dup:
                out.append(("invented-result", f"call {ci} yielded unexpected indices {idx[:10]}"))
            continue
        if call["ordered"]:
            if idx != list(range(n)):
                pos = next(k for k, v in enumerate(idx) if v != k)
                out.append(("reordered-result", f"ordered call {ci} ({_cd(call)}): position {pos} holds index "
                            f"{idx[pos]}; sequence {idx[:12]}"))
        else:
            last = {}
            for v in idx:
                c = v // cs
                if c in last and v < last[c]:
                    out.append(("reordered-within-chunk", f"unordered call {ci}: chunk {c} out of order ({idx[:12]})"))
                    break
                last[c] = v
    return out


def _cd(call):
    return (f"{'imap' if call['ordered'] else 'imap_unordered'} n={call['n']} chunk={call['chunk']} "
            f"form={call.get('form', 'list')}")


def deadlock_finding(case, result):
    """Returns None or (mechanism, summary, where) for a run that ended in a quiescent state."""
    if result.get("status") != "deadlock":
        return None
    w = result.get("witness") or {}
    ps = w.get("pool_state") or {}
    phase = w.get("phase")
    if phase == "pool_exit":
        mech = "exit-blocked"
    elif phase in ("pool_enter", "until_all_ready", "setup"):
        mech = f"{phase}-blocked"
    else:
        fin, dc, sw = ps.get("finished_cnt"), ps.get("data_cnt"), ps.get("sending_work")
        alive = ps.get("workers_alive")
        stack = ps.get("consumer_stack") or []
        blocked_get = any("_get_results" in s for s in stack)
        pending = (isinstance(fin, int) and isinstance(dc, int) and fin < dc) or (isinstance(ps.get("work_qsize"), int)
                                                                                and ps.get("work_qsize") > 0)
        if alive == 0 and pending:
            mech = "no-live-worker-for-pending-chunks"
        elif blocked_get and sw is False and fin == dc and "SendWorkThread" not in (ps.get("threads") or []):
            mech = "consumer-waits-no-result-owed"
        elif blocked_get and "SendWorkThread" in (ps.get("threads") or []) and fin == dc:
            mech = "consumer-and-feeder-both-waiting"
        elif any("join" in s or "stop" in s for s in stack[:6]):
            mech = "join-blocked"
        else:
            mech = "deadlock-other"
    died = result.get("thread_exceptions") or []
    if w.get("storm"):
        return mech, (f"leaving the pool context does not end: {w.get('workers_started_while_leaving')} new workers entered begin() "
                      f"after __exit__ was called (the pool has {case.get('workers')} workers and no work is wanted any more), and more keep coming"), phase
    summary = (f"{'a thread of the pool died (' + died[0][:160] + '); ' if died else ''}"
               f"{'no progress for ' + str(w.get('quiet_s')) + ' s (nothing logged, no other process used cpu, this process only repeats a timeout loop: ' + str(w.get('statements_in_window')) + ' statements)' if w.get('livelock') else 'quiescent state (' + str(w.get('quiet_s')) + 's, all processes blocked)'} in phase {phase}"
               f"{'' if w.get('call') is None else ' of call ' + str(w.get('call'))}: consumer at "
               f"{(ps.get('consumer_stack') or ['?'])[0]}, sending_work={ps.get('sending_work')}, finished="
               f"{ps.get('finished_cnt')}/{ps.get('data_cnt')}, results_q={ps.get('results_qsize')}, work_q="
               f"{ps.get('work_qsize')}, workers alive {ps.get('workers_alive')}/{ps.get('workers')}, threads "
               f"{ps.get('threads')}")
    return mech, summary, phase


def lifecycle_findings(case, result):
    """C04 oracle over the event log."""
    out = []
    ev = sorted(result.get("events", []), key=lambda e: e["seq"])
    by_pid = {}     # keyed by (pid, wid): a pid number alone can be recycled within one run
    for e in ev:
        if e["ev"] in ("begin_enter", "begin_exit", "begin_raise", "item", "item_raise", "end_enter", "end_exit"):
            by_pid.setdefault((e["pid"], e.get("wid")), []).append(e)
    completed = result.get("status") == "completed"
    quota = case.get("quota")
    for (pid, _w), es in by_pid.items():
        names = [e["ev"] for e in es]
        wid = es[0].get("wid")
        nb = names.count("begin_enter")
        ne = names.count("end_enter")
        if nb != 1:
            out.append(("begin-not-once", f"worker wid={wid} pid={pid}: begin() entered {nb} times"))
            continue
        if names[0] != "begin_enter":
            out.append(("begin-not-first", f"worker wid={wid}: first event is {names[0]}, not begin()"))
        if "item" in names and "begin_exit" in names and names.index("item") < names.index("begin_exit"):
            out.append(("item-before-begin-finished", f"worker wid={wid} processed an item before begin() returned"))
        if "item" in names and "begin_exit" not in names:
            out.append(("item-before-begin-finished", f"worker wid={wid} processed items although begin() never returned"))
        if ne > 1:
            out.append(("end-not-once", f"worker wid={wid} pid={pid}: end() entered {ne} times"))
        if ne == 1:
            k = names.index("end_enter")
            if any(n in ("item", "begin_enter", "begin_exit") for n in names[k + 1:]):
                out.append(("event-after-end", f"worker wid={wid}: {names[k + 1:][:4]} logged after end()"))
        faulted = "begin_raise" in names or "item_raise" in names
        if ne == 0 and ((completed and not case.get("join_timeout")) or faulted):
            # a completed run joined every worker; a faulted worker is dead: both must have run end()
            out.append(("end-missing", f"worker wid={wid} pid={pid} ({'faulted' if faulted else 'joined'}) never ran end(); "
                        f"events {names[-4:]}"))
        quota = case.get("quota") or case.get("functor_quota")
        if case.get("zero_quota_worker") and case["pool"] != "factory" and wid == 0:
            quota = 0           # a stand-by worker: it starts, takes nothing and ends
        if (quota or quota == 0) and not case.get("frac_quota"):
            chunks = {(e["call"], e["idx"] // case["calls"][e["call"]]["chunk"]) for e in es if e["ev"] == "item"}
            if len(chunks) > quota:
                out.append(("quota-exceeded", f"worker wid={wid} processed {len(chunks)} chunks, quota is {quota}"))
    # until_all_ready: every begin_exit of workers started before the call precedes its return (fault-free runs)
    if not case.get("faults"):
        started = []
        for e in ev:
            if e["ev"] == "begin_enter":
                started.append(e)
            if e["ev"] == "until_all_ready_return":
                # workers in the pool at that moment = those whose begin_enter is already logged or were started at
                # pool entry; the robust, schedule independent part: all workers created at pool entry
                pass
        entered = [e for e in ev if e["ev"] == "pool_entered"]
        first_ready = next((e for e in ev if e["ev"] == "until_all_ready_return"), None)
        if entered and first_ready and case.get("ready_first"):
            pids0 = set(entered[0].get("pids") or [])
            for pid in pids0:
                be = [e for k, es in by_pid.items() if k[0] == pid for e in es if e["ev"] == "begin_exit"]
                if not be or be[0]["seq"] > first_ready["seq"]:
                    out.append(("ready-before-begin-finished",
                                f"until_all_ready() returned (seq {first_ready['seq']}) before begin() of worker pid "
                                f"{pid} completed"))
    if not case.get("faults"):
        begun = {}
        for e in ev:
            if e["ev"] == "begin_exit":
                begun.setdefault(e.get("wid"), e["seq"])
        for e in ev:
            if e["ev"] == "ready_during_return":
                for wid in e.get("wids") or []:
                    if wid is None or wid not in begun or begun[wid] > e["seq"]:
                        out.append(("ready-before-begin-finished",
                                    f"until_all_ready() (called while a call was running) returned at seq {e['seq']} although "
                                    f"begin() of worker wid={wid}, which was in the pool when it was called, had not completed "
                                    f"({'begin_exit never logged' if wid not in begun else 'begin_exit at seq %d' % begun[wid]})"))
                        break
            elif e["ev"] == "ready_during_raise":
                out.append(("until-all-ready-raised", f"until_all_ready() raised {e.get('exc')}"))
    if result.get("status") == "driver-exception" and result.get("phase") == "pool_exit" and not case.get("join_timeout") \
            and not case.get("faults"):
        # leaving the context raised: whatever the exception, the workers were to be stopped and joined first
        w_ = result.get("witness") or {}
        for (pid, _w), es in by_pid.items():
            if any(e["ev"] == "begin_enter" for e in es) and not any(e["ev"] == "end_exit" for e in es):
                out.append(("worker-left-running", f"leaving the pool context raised {str(w_.get('exception'))[:160]} and worker wid={es[0].get('wid')} "
                            f"pid={pid} had not run end() by then (nobody told it to stop)"))
    if completed and not case.get("join_timeout"):
        exit_ret = next((e["seq"] for e in ev if e["ev"] == "pool_exit_return"), None)
        if exit_ret is not None:
            for (pid, _w), es in by_pid.items():
                ends = [e["seq"] for e in es if e["ev"] == "end_exit"]
                if any(e["ev"] == "begin_enter" for e in es) and (not ends or ends[0] > exit_ret):
                    out.append(("worker-left-running", f"worker wid={es[0].get('wid')} pid={pid} had not finished end() "
                                f"when the pool context was left (end_exit "
                                f"{'never logged' if not ends else 'at seq %d > exit at seq %d' % (ends[0], exit_ret)})"))
        for note in result.get("notes", []):
            alive = note.get("alive_after_exit")
            if alive:
                out.append(("worker-left-running", f"after leaving the pool context worker pid(s) {alive} still run"))
    return out


# ------------------------------------------------------------------------------------ sweep plans


def sweep_sites(dry_result, prefixes):
    """Sites (role, qualname, rel, max occurrence) of the dry run whose qualname starts with one of prefixes."""
    sites = []
    for role, qn, rel, n in dry_result.get("occ") or []:
        if any(qn.startswith(p) for p in prefixes):
            sites.append((role, qn, rel, n))
    return sorted(sites, key=lambda x: (x[0], x[1], str(x[2])))


def worker_sites(qualnames=("BaseFunctorWorker.run",)):
    """Statements of the worker loops (executed in worker processes; not visible in the parent's counters)."""
    out = []
    for co, (qn, first, fn) in instr.S.codes.items():
        if qn in qualnames:
            lines = sorted({ln for _, _, ln in co.co_lines() if ln})
            for ln in lines:
                if ln != first:
                    out.append(("worker*", qn, ln - first))
    return out
