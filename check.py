#!/venv/bin/python
"""
Entry point of every registered check.

    check.py Cxx --tier quick|thorough        run the check, write evidence/Cxx.json
    check.py Cxx --replay <file>              re-execute a recorded violation
    check.py Cxx --shard <spec> <out>         (internal) one shard in its own process

Environment: VERIF_SEED (default 0), VERIF_TIER, VERIF_REPO (default /repo, used by selftest only).
Exit: 0 held on everything explored, 1 violation (VIOLATION line printed), 2 inconclusive/broken run.
"""
import argparse
import importlib
import json
import os
import sys
import time

os.environ.setdefault("PYTHONHASHSEED", "0")
os.environ["PYTHONUTF8"] = "1"
sys.dont_write_bytecode = True
HERE = os.path.dirname(os.path.abspath(__file__))
if HERE not in sys.path:
    sys.path.insert(0, HERE)

from vf import common  # noqa: E402


def main():
    ap = argparse.ArgumentParser()
    ap.add_argument("prop")
    ap.add_argument("--tier", default=os.environ.get("VERIF_TIER", "quick"), choices=["quick", "thorough"])
    ap.add_argument("--seed", type=int, default=int(os.environ.get("VERIF_SEED", "0")))
    ap.add_argument("--replay")
    ap.add_argument("--shard", nargs=2)
    ap.add_argument("--jobs", type=int, default=None)
    a = ap.parse_args()

    prop = a.prop.upper()
    common.add_repo_to_path()
    mod = importlib.import_module(f"vf.checks.{prop.lower()}")

    if a.shard:
        common.shard_main(mod, a.shard[0], a.shard[1])
        return 0
    # the orchestrator only reads results (witnesses may hold ints of thousands of digits); shards keep the interpreter's default
    sys.set_int_max_str_digits(0)

    if a.replay:
        with open(a.replay) as f:
            doc = json.load(f)
        env_ = (doc.get("replay") or {}).get("_env") or {} if isinstance(doc.get("replay"), dict) else {}
        if env_.get("optimize") and not sys.flags.optimize:
            os.execv(sys.executable, [sys.executable, "-O"] + sys.argv)       # the witness was found under `python -O`
        if env_.get("lib_warnings_as_errors"):
            import warnings
            warnings.filterwarnings("error", module=r"windpyutils(\..*)?")
        if env_.get("debug_logging"):
            import logging
            logging.basicConfig(level=logging.DEBUG, stream=open(os.devnull, "w"), force=True)
        violated, text = mod.replay(doc)
        print(text)
        if violated:
            print(f"VIOLATION property={prop} replay={a.replay}")
            return 1
        print(f"replay did not reproduce the violation (property {prop})")
        return 0

    t0 = time.time()
    specs = mod.plan(a.tier, a.seed)
    timeout = getattr(mod, "SHARD_TIMEOUT", {"quick": 600, "thorough": 3600})[a.tier]
    jobs = a.jobs or getattr(mod, "MAX_PARALLEL", None)
    results = common.run_shards(prop, specs, timeout, max_parallel=jobs)
    # a shard that produced nothing is re-run once, alone, before it may count as broken
    for i, (spec, res, note) in enumerate(results):
        if res is None:
            results[i] = common.run_shards(prop, [spec], timeout * 2, max_parallel=1)[0]
    extra = mod.extra_coverage(a.tier, a.seed) if hasattr(mod, "extra_coverage") else None
    return common.finish(mod, a.tier, a.seed, results, t0, extra)


if __name__ == "__main__":
    sys.exit(main())
