#!/venv/bin/python
"""
Confirms a seeded change produced by a sub-agent and measures which checks catch it.

    seed_eval.py <worktree> <n> <prop> [--checks C01,C03] [--tier quick] [--name label] [--full-tests]

Steps (all on a scratch clone of /repo under /dev/shm, removed afterwards):
  1. demo passes on the clean clone, patch applies, demo fails with the patch;
  2. the repository's own tests still pass with the patch (the files that cover the touched modules;
     --full-tests runs everything);
  3. the listed checks (default: the property's own) run against the patched clone (VERIF_REPO).
If 1 and 2 hold the change is kept under /verif/seeded/<prop>-<label>/ with meta.json.
"""
import argparse
import json
import os
import shutil
import subprocess
import sys
import tempfile
import time

HERE = os.path.dirname(os.path.dirname(os.path.abspath(__file__)))
PY = "/venv/bin/python"

TESTS_FOR = {
    "windpyutils/structures/lists.py": ["tests/test_lists.py", "tests/test_caches.py"],
    "windpyutils/structures/caches.py": ["tests/test_caches.py"],
    "windpyutils/structures/sorted.py": ["tests/test_sorted.py"],
    "windpyutils/structures/span_set.py": ["tests/test_span_set.py", "tests/test_maps.py"],
    "windpyutils/structures/maps.py": ["tests/test_maps.py"],
    "windpyutils/structures/circular_buffer.py": ["tests/test_circular_buffer.py"],
    "windpyutils/buffers.py": ["tests/test_buffers.py", "tests/test_pools.py", "tests/test_own_proc_pools.py"],
    "windpyutils/generic.py": ["tests/test_generic.py", "tests/test_sorted.py"],
    "windpyutils/files.py": ["tests/test_files.py"],
    "windpyutils/parallel/own_proc_pools.py": ["tests/test_own_proc_pools.py", "tests/test_storage.py"],
    "windpyutils/parallel/storage.py": ["tests/test_storage.py"],
    "windpyutils/parallel/pools.py": ["tests/test_pools.py"],
    "windpyutils/parallel/maps.py": ["tests/test_parallel_maps.py"],
    "windpyutils/parallel/workers.py": ["tests/test_parallel_workers.py", "tests/test_parallel_maps.py"],
}


def run(cmd, cwd, env, timeout, out):
    with open(out, "w") as f:
        p = subprocess.Popen(cmd, cwd=cwd, env=env, stdout=f, stderr=subprocess.STDOUT, start_new_session=True)
        try:
            rc = p.wait(timeout=timeout)
        except subprocess.TimeoutExpired:
            rc = "timeout"
        try:
            os.killpg(p.pid, 9)
        except (ProcessLookupError, PermissionError):
            pass
        if rc == "timeout":
            p.wait()
    return rc


def main():
    ap = argparse.ArgumentParser()
    ap.add_argument("worktree")
    ap.add_argument("n")
    ap.add_argument("prop")
    ap.add_argument("--checks")
    ap.add_argument("--tier", default="quick")
    ap.add_argument("--name")
    ap.add_argument("--full-tests", action="store_true")
    ap.add_argument("--skip-tests", action="store_true")
    ap.add_argument("--seed", default="0")
    a = ap.parse_args()
    patch = os.path.join(a.worktree, f"patch{a.n}.diff")
    demo = os.path.join(a.worktree, f"demo{a.n}.py")
    if not os.path.exists(patch):
        patch = os.path.join(a.worktree, "patch.diff")
        demo = os.path.join(a.worktree, "demo.py")
    label = a.name or f"s{a.n}"
    work = tempfile.mkdtemp(prefix="vf-seed-", dir="/dev/shm")
    meta = {"property": a.prop, "label": label, "evaluated": time.strftime("%Y-%m-%d %H:%M:%S")}
    try:
        repo = os.path.join(work, "repo")
        subprocess.run(["git", "clone", "-q", "/repo", repo], check=True)
        dsrc = open(demo).read().replace(a.worktree.rstrip("/"), repo)
        dpath = os.path.join(repo, "seed_demo.py")
        open(dpath, "w").write(dsrc)
        env = dict(os.environ, PYTHONPATH=repo, PYTHONDONTWRITEBYTECODE="1")
        rc_clean = run([PY, dpath], repo, env, 300, os.path.join(work, "demo_clean.out"))
        ap_rc = subprocess.run(["git", "-C", repo, "apply", patch]).returncode
        if ap_rc != 0:
            print("PATCH DOES NOT APPLY")
            return 2
        touched = subprocess.check_output(["git", "-C", repo, "diff", "--name-only"]).decode().split()
        rc_patched = run([PY, dpath], repo, env, 300, os.path.join(work, "demo_patched.out"))
        meta["demo"] = {"clean_rc": rc_clean, "patched_rc": rc_patched,
                        "patched_output_tail": open(os.path.join(work, "demo_patched.out"), errors="replace").read()[-600:]}
        meta["touched"] = touched
        print(f"demo: clean rc={rc_clean}, patched rc={rc_patched}; touched {touched}")
        tests = sorted({t for f in touched for t in TESTS_FOR.get(f, ["tests"])})
        if a.full_tests:
            tests = ["tests"]
        if not a.skip_tests:
            t0 = time.time()
            rc_tests = run([PY, "-m", "pytest", "-q", "-p", "no:cacheprovider", "--timeout=900", "-x"] + tests, repo, env, 2400,
                           os.path.join(work, "tests.out"))
            tail = open(os.path.join(work, "tests.out"), errors="replace").read()[-300:]
            meta["tests"] = {"files": tests, "rc": rc_tests, "tail": tail.strip().splitlines()[-1] if tail.strip() else "",
                             "seconds": round(time.time() - t0)}
            print(f"tests {tests}: rc={rc_tests}: {meta['tests']['tail']}")
        else:
            meta["tests"] = {"files": tests, "rc": "skipped"}
        ok = rc_clean == 0 and rc_patched not in (0,) and meta["tests"]["rc"] in (0, "skipped")
        meta["confirmed"] = bool(ok)
        # checks
        verif = os.path.join(work, "verif")
        shutil.copytree(HERE, verif, ignore=shutil.ignore_patterns(".git", "replays", "evidence", "__pycache__", "seeded"))
        checks = (a.checks.split(",") if a.checks else [a.prop])
        meta["checks"] = {}
        for c in checks:
            env2 = dict(os.environ, VERIF_REPO=repo, VERIF_SEED=a.seed)
            out = os.path.join(work, f"{c}.out")
            t0 = time.time()
            rc = run([PY, os.path.join(verif, "check.py"), c, "--tier", a.tier], verif, env2, 3000, out)
            txt = open(out, errors="replace").read()
            mechs = [l.strip()[:300] for l in txt.splitlines() if l.strip().startswith("mechanism")]
            meta["checks"][c] = {"tier": a.tier, "seed": a.seed, "rc": rc, "caught": rc == 1, "mechanisms": mechs[:6],
                                 "seconds": round(time.time() - t0)}
            print(f"check {c} ({a.tier}): rc={rc} {'CAUGHT' if rc == 1 else 'MISSED' if rc == 0 else 'INCONCLUSIVE/BROKEN'}")
            for m in mechs[:4]:
                print("    " + m[:260])
            if rc not in (0, 1):
                print(txt[-800:])
        if ok:
            dst = os.path.join(HERE, "seeded", f"{a.prop}-{label}")
            os.makedirs(dst, exist_ok=True)
            shutil.copy(patch, os.path.join(dst, "patch.diff"))
            shutil.copy(demo, os.path.join(dst, "demo.py"))
            mp = os.path.join(dst, "meta.json")
            old = {}
            if os.path.exists(mp):
                old = json.load(open(mp))
                for k in ("needs", "description"):
                    if k in old:
                        meta[k] = old[k]
                hist = old.get("check_history", [])
            else:
                hist = []
            hist.append({"when": meta["evaluated"], "checks": meta["checks"]})
            meta["check_history"] = hist
            json.dump(meta, open(mp, "w"), indent=1)
            print(f"kept as {dst}")
        else:
            print("NOT CONFIRMED (not kept)")
    finally:
        shutil.rmtree(work, ignore_errors=True)
    return 0


if __name__ == "__main__":
    sys.exit(main())
