#!/venv/bin/python
"""
Regression run over the seeded corpus: every /verif/seeded/<id>/patch.diff is applied to a scratch clone of /repo and
the check(s) that are expected to catch it are run against the clone (VERIF_REPO). The outcome is appended to the
check_history of the seed's meta.json. Exit 1 if a seed that was caught before is missed now.

    seed_regress.py [--only C01,C05] [--tier quick] [--jobs 2] [--seed 1]
"""
import argparse
import json
import os
import shutil
import subprocess
import sys
import tempfile
import time
from concurrent.futures import ThreadPoolExecutor

HERE = os.path.dirname(os.path.dirname(os.path.abspath(__file__)))
PY = "/venv/bin/python"


SEED = "0"
CHECKS = None


def run_one(sid, tier):
    d = os.path.join(HERE, "seeded", sid)
    meta = json.load(open(os.path.join(d, "meta.json")))
    hist = meta.get("check_history", [])
    # the checks that caught it at the latest evaluation of each check (default: the property's own)
    last = {}
    for h in hist:
        for c, v in h["checks"].items():
            last[c] = v
    checks = [c for c, v in last.items() if v.get("caught")] or [meta["property"]]
    if CHECKS:
        checks = list(CHECKS)          # explicit list (a neighbouring check is expected to catch this change)
    work = tempfile.mkdtemp(prefix="vf-regr-", dir="/dev/shm")
    out = {}
    try:
        repo = os.path.join(work, "repo")
        subprocess.run(["git", "clone", "-q", "/repo", repo], check=True)
        if subprocess.run(["git", "-C", repo, "apply", os.path.join(d, "patch.diff")]).returncode != 0:
            return sid, {"error": "patch does not apply"}, True
        verif = os.path.join(work, "verif")
        shutil.copytree(HERE, verif, ignore=shutil.ignore_patterns(".git", "replays", "evidence", "__pycache__", "seeded"))
        for c in checks:
            env = dict(os.environ, VERIF_REPO=repo, VERIF_SEED=SEED)
            lp = os.path.join(work, f"{c}.out")
            t0 = time.time()
            with open(lp, "w") as f:
                p = subprocess.Popen([PY, os.path.join(verif, "check.py"), c, "--tier", tier], env=env, cwd=verif, stdout=f,
                                     stderr=subprocess.STDOUT, start_new_session=True)
                try:
                    rc = p.wait(timeout=3000)
                except subprocess.TimeoutExpired:
                    rc = "timeout"
                try:
                    os.killpg(p.pid, 9)
                except (ProcessLookupError, PermissionError):
                    pass
            txt = open(lp, errors="replace").read()
            mechs = [l.strip()[:300] for l in txt.splitlines() if l.strip().startswith("mechanism")]
            out[c] = {"tier": tier, "seed": SEED, "rc": rc, "caught": rc == 1, "mechanisms": mechs[:6],
                      "seconds": round(time.time() - t0)}
    finally:
        shutil.rmtree(work, ignore_errors=True)
    hist.append({"when": time.strftime("%Y-%m-%d %H:%M:%S"), "checks": out, "regression_run": True})
    meta["check_history"] = hist
    json.dump(meta, open(os.path.join(d, "meta.json"), "w"), indent=1)
    regressed = not any(v["caught"] for v in out.values())
    return sid, out, regressed


def main():
    ap = argparse.ArgumentParser()
    ap.add_argument("--only")
    ap.add_argument("--tier", default="quick")
    ap.add_argument("--jobs", type=int, default=1)
    ap.add_argument("--seed", default="0")
    ap.add_argument("--checks", help="run these checks instead of the ones that caught the change before")
    a = ap.parse_args()
    global SEED, CHECKS
    SEED = a.seed
    CHECKS = a.checks.split(",") if a.checks else None
    sids = sorted(os.listdir(os.path.join(HERE, "seeded")))
    if a.only:
        keep = a.only.split(",")
        sids = [s for s in sids if any(s.startswith(k) for k in keep)]
    bad = []
    with ThreadPoolExecutor(max_workers=a.jobs) as ex:
        for sid, out, regressed in ex.map(lambda s: run_one(s, a.tier), sids):
            line = "; ".join(f"{c}: {'caught' if v.get('caught') else 'MISSED rc=%s' % v.get('rc')}" for c, v in out.items()) \
                if "error" not in out else out["error"]
            print(f"{sid}: {line}", flush=True)
            if regressed:
                bad.append(sid)
    print(f"{len(sids)} seeds, {len(bad)} not caught: {bad}")
    return 1 if bad else 0


if __name__ == "__main__":
    sys.exit(main())
