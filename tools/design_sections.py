#!/usr/bin/env python3
"""Regenerates sections 8-10 of DESIGN.md (findings, calibration table, as-built) from the repository log,
known_findings.json and seeded/*/meta.json. Everything before '## 8.' is left untouched."""
import json, os, subprocess
HERE = os.path.dirname(os.path.dirname(os.path.abspath(__file__)))
log = subprocess.check_output(['git', '-C', '/repo', 'log', '--format=%h %s', '--reverse']).decode().splitlines()[1:]
fixes = "\n".join(f"| `{l.split()[0]}` | {l.split(' ', 1)[1][5:]} |" for l in log if l.split(' ', 1)[1].startswith('fix:'))
rows = []
ncaught_first = 0
seeded = sorted(os.listdir(os.path.join(HERE, 'seeded')))
for d in seeded:
    m = json.load(open(os.path.join(HERE, 'seeded', d, 'meta.json')))
    hist = m.get('check_history', [])
    first, last = {}, {}
    for h in hist:
        for c, v in h['checks'].items():
            first.setdefault(c, v)
            last[c] = v
    own = m['property']
    def fmt(x):
        return "; ".join(f"{c}: {'caught' if v['caught'] else 'missed' if v['rc'] == 0 else 'rc=%s' % v['rc']}" for c, v in x.items())
    if any(v['caught'] for v in first.values()):
        ncaught_first += 1
    mech = []
    for c, v in last.items():
        if v['caught']:
            mech += [mm.split('(')[0].replace('mechanism', '').strip() for mm in v['mechanisms'][:2]]
    rows.append(f"| {d} | {m.get('description', '')} | {m.get('needs', '')} | {fmt(first)} | {fmt(last)} ({', '.join(mech[:3])}) |")
table = "\n".join(rows)
extra = open(os.path.join(HERE, 'tools', 'design_tail.md')).read()
w8 = [d for d in seeded if '-w8' in d]
w8first = 0
for d in w8:
    m = json.load(open(os.path.join(HERE, 'seeded', d, 'meta.json')))
    h0 = (m.get('check_history') or [{}])[0].get('checks', {})
    w8first += any(v['caught'] for v in h0.values())
extra = extra.replace('@@W8N@@', str(len(w8))).replace('@@W8FIRST@@', str(w8first))
w9 = [d for d in seeded if '-w9' in d and d[:3] not in ('C01', 'C02', 'C03', 'C04', 'C05', 'C14', 'C18')]
w9all = [d for d in seeded if '-w9' in d]
w9first = 0
for d in w9:
    m = json.load(open(os.path.join(HERE, 'seeded', d, 'meta.json')))
    h0 = (m.get('check_history') or [{}])[0].get('checks', {})
    w9first += any(v['caught'] for v in h0.values())
w10 = [d for d in seeded if '-w10' in d]
w10first = 0
for d in w10:
    m = json.load(open(os.path.join(HERE, 'seeded', d, 'meta.json')))
    h0 = (m.get('check_history') or [{}])[0].get('checks', {})
    w10first += any(v['caught'] for v in h0.values())
extra = extra.replace('@@W10FIRST@@', str(w10first))
extra = extra.replace('@@W9N@@', str(len(w9all))).replace('@@W9FIRST@@', str(w9first))
sec = extra.replace('@@FIXES@@', fixes).replace('@@TABLE@@', table).replace('@@NSEEDED@@', str(len(seeded))).replace('@@NFIRST@@', str(ncaught_first))
p = os.path.join(HERE, 'DESIGN.md')
s = open(p).read()
i = s.find("## 8. ")
if i < 0:
    i = len(s)
open(p, 'w').write(s[:i].rstrip("\n") + "\n\n" + sec)
print("sections 8-10 regenerated;", len(seeded), "seeded changes,", ncaught_first, "caught at first evaluation")
