#!/usr/bin/env python3
"""Regenerates /verif/MANIFEST.json from the table below (keeps it valid while checks are added)."""
import json
import os

HERE = os.path.dirname(os.path.dirname(os.path.abspath(__file__)))
PY = "/venv/bin/python"

# id -> (category, technique, level text, level note, design ref)
CHECKS = {
    "C06": ("exploration", "reference-model monitor (recency-ordered dict) after every operation of seeded histories + "
            "statement-budget progress oracle via sys.monitoring",
            "Every operation of thousands of generated histories is compared with an ordered-dict model (result, "
            "exception class, recency order, victim, len) and views must finish within a statement budget; "
            "observation of real executions, not a proof.",
            "Trusted: the 60-line model in vf/checks/c06.py; ambiguity the statement leaves open (membership "
            "refresh, recency effect of views) is adopted from the observation, never guessed.", "DESIGN.md §5 C06"),
    "C07": ("exploration", "reference-model monitor with use-count intervals after every operation + statement-budget "
            "progress oracle",
            "Generated histories compared with a model that keeps [lo,hi] use counts per key: value of latest store, "
            "key set, victim can be a minimum, iteration order consistent with counts, views complete and terminate.",
            "Trusted: the interval model in vf/checks/c07.py. Histories with membership tests / views are checked "
            "with looser intervals; one third of the histories is exact.", "DESIGN.md §5 C07"),
    "C08": ("exploration", "reference-model monitor (list of node identities) + forward/backward link walk after "
            "every operation; differential payload classes",
            "Generated histories on the real list with five payload classes (distinct, equal, NaN, few-valued, "
            "__eq__-raising) and long equal runs; after each operation identity sequence, len, backward links and "
            "head/tail are compared with a payload-blind model.",
            "Trusted: python list as the model; operations are applied only to nodes of the list.", "DESIGN.md §5 C08"),
    "C19": ("exploration", "reference-definition oracle over completely enumerated bounded domains",
            "All 3999 numerals, all sequences over a 3-letter alphabet up to the tier's length bound, all (n, batch) "
            "pairs up to the bound plus huge ranges are executed on the real helpers and compared with independent "
            "definitions.",
            "Trusted: the reference definitions in vf/checks/c19.py; exhaustive only inside the stated bounds.",
            "DESIGN.md §5 C19"),
}

PENDING_REASON = "check under construction in this session (claimed once it runs clean on the unchanged tree)"


def main():
    props = [json.loads(l) for l in open(os.path.join(HERE, "properties.jsonl"))]
    checks = []
    na = []
    for p in props:
        pid = p["id"]
        if pid in CHECKS and os.path.exists(os.path.join(HERE, "vf", "checks", pid.lower() + ".py")):
            cat, tech, text, note, ref = CHECKS[pid]
            checks.append({
                "property_id": pid,
                "quick_cmd": f"{PY} check.py {pid} --tier quick",
                "thorough_cmd": f"{PY} check.py {pid} --tier thorough",
                "evidence_file": f"/verif/evidence/{pid}.json",
                "replay_cmd_template": f"{PY} check.py {pid} --replay {{path}}",
                "engine": "vf",
                "level_claimed": {"category": cat, "text": text, "design_ref": ref},
                "level_note": note,
                "technique": tech,
            })
        else:
            na.append({"property_id": pid, "reason": NA.get(pid, PENDING_REASON)})
    m = {
        "version": 1,
        "setup_cmd": f"{PY} -c \"import sys; sys.path.insert(0, '/verif'); import vf.common, vf.instr, vf.seq; "
                     f"print('vf ok')\"",
        "hooks": {
            "guard": "WINDPYUTILS_VERIF",
            "enable": "no source hooks exist: the checks import /repo's working tree (PYTHONPATH=/repo) and attach "
                      "sys.monitoring LINE callbacks to its code objects at run time",
            "baseline_off_cmd": "cd /repo && /venv/bin/python -m pytest -ra -q -p no:cacheprovider --timeout=900 "
                                "--continue-on-collection-errors",
            "source_commits": [],
            "add_only": True,
        },
        "engines": [{"name": "vf", "path": "/verif/vf", "serves_properties": [c["property_id"] for c in checks],
                     "kind_free_text": "runtime monitors: reference-model oracles, event-log checkers, sys.monitoring "
                                       "line hooks for step budgets / delay injection / failpoints, quiescence "
                                       "(deadlock) oracle, strace descriptor-ownership checker"}],
        "checks": checks,
        "not_applicable": na,
        "notes": "All checks are runtime monitors over real executions of /repo's working tree; see DESIGN.md.",
    }
    with open(os.path.join(HERE, "MANIFEST.json"), "w") as f:
        json.dump(m, f, indent=1)
    print(f"{len(checks)} checks, {len(na)} not claimed")


NA = {}

if __name__ == "__main__":
    main()
