#!/usr/bin/env python3
"""Regenerates /verif/MANIFEST.json from the table below (keeps it valid while checks are added)."""
import json
import os

HERE = os.path.dirname(os.path.dirname(os.path.abspath(__file__)))
PY = "/venv/bin/python"

# id -> (category, technique, level text, level note, design ref)
CHECKS = {
    "C01": ("exploration", "offline yield-history checker (unique items) over real pool executions; schedule perturbation by "
            "sys.monitoring LINE-hook delay sweep (every executed statement x occurrence), random-k delays, forced GIL "
            "hand-offs",
            "Single-call cases over the configuration grid run on the real pool (real manager, queues, processes); each "
            "is repeated with one 120 ms delay at every statement the undisturbed run executed in consumer, feeder, "
            "replacer and worker code, plus random delay combinations; every yield history is checked for lost, "
            "duplicated, reordered, invented results.",
            "Observation of executions: every one-preemption schedule at statement granularity of the swept cases, "
            "sampled deeper ones; races inside one statement or inside multiprocessing are out of reach.",
            "DESIGN.md §5 C01"),
    "C02": ("exploration", "quiescence (deadlock) oracle on real pool executions: no event / line event / cpu tick / stack "
            "change and no pending delay for 1.6 s with the consumer unfinished; same delay sweep; slow and "
            "late-exhausting inputs; flow-control workloads",
            "Termination is restated as bounded progress and decided by state: a run is a violation only when the whole "
            "process tree is provably idle while the generator has not ended or the pool context has not been left; "
            "wall-clock limits only yield 'inconclusive'.",
            "Liveness over a finite run: a livelock that keeps executing statements would end as inconclusive.",
            "DESIGN.md §5 C02"),
    "C03": ("exploration", "per-call yield-history checker with call-tagged items + quiescence oracle + exception monitor over "
            "multi-call histories with worker quotas; delay sweep over replace thread, retire path, end of imap",
            "Histories of 2-6 calls on one pool, quotas placed so that workers retire before / exactly at / after the end "
            "of a call, each history swept with single delays at every executed statement; every call must return "
            "exactly its own items, raise nothing, and the pool must never become quiescent with pending work.",
            "As C01/C02; queue residue between calls is diagnostic only.", "DESIGN.md §5 C03"),
    "C04": ("fault_enumeration", "offline checker over a cross-process event log (begin/item/end per worker under one shared "
            "sequence counter) + /proc liveness scan after pool exit; enumerated faults in begin() and in the functor; "
            "delay sweep on fault-free cases",
            "Per worker exactly one begin before the first item and one end after the last (also after an injected "
            "exception in begin or in the functor at the first/middle/last item), quota respected, until_all_ready "
            "after every begin, no worker pid alive after the context, exit never quiescent.",
            "Fault positions enumerated: begin of worker k / of a replacement worker, functor at 3 item positions; "
            "fault runs assert lifecycle facts only.", "DESIGN.md §5 C04"),
    "C05": ("exploration", "yield-history checker (call-tagged unique items) + quiescence oracle on real FunctorMap / mul_p_map "
            "executions; designated chunk arrival orders via per-item delays; LINE-hook delay sweep in parent and "
            "forked workers",
            "Sequences of fully consumed calls on one FunctorMap and repeated mul_p_map calls in one process, inputs of "
            "length 0/1/<workers/up to 60, each case swept with one delay per executed statement; every returned "
            "sequence must equal [f(x)] of its own call and the process tree must never become quiescent unfinished.",
            "Fork start method only. Observation of executions, see C01/C02.", "DESIGN.md §5 C05"),
    "C14": ("exploration", "offline read/store history checker over a cross-process event log with one logical clock (unique "
            "texts) + final-state checks at the quiescent point + flush/re-use; LINE-hook delay sweep in writer, reader "
            "and parent roles; quiescence oracle",
            "Forked writers with hostile id assignments, forked readers and the parent polling while writers run; every "
            "read is justified against the stores called/returned before it; len/is_contiguous/iteration/every id "
            "after the writers joined; flush and re-use.",
            "Trusted: the shared-counter clock (call logged before, return after). Texts are single lines.",
            "DESIGN.md §5 C14"),
    "C18": ("exploration", "value oracle on every read of every forked process with delays injected between seek and read + "
            "strace -f descriptor-ownership checker (lseek/read on the data file through an inherited descriptor)",
            "One object opened in the parent and read concurrently by children, grandchildren and the parent; the value "
            "oracle sees wrong lines, the system-call oracle sees the cause (shared open file description) even when "
            "timing hides the symptom.",
            "strace/ptrace available in the sandbox; memory-mapped reads are invisible to the syscall oracle (and have "
            "a per-process position).", "DESIGN.md §5 C18"),
    "C06": ("exploration", "reference-model monitor (recency-ordered dict) after every operation of seeded histories + "
            "statement-budget progress oracle via sys.monitoring",
            "Every operation of thousands of generated histories is compared with an ordered-dict model (result, "
            "exception class, recency order, victim, len) and views must finish within a statement budget; "
            "observation of real executions, not a proof.",
            "Trusted: the 60-line model in vf/checks/c06.py; ambiguity the statement leaves open (membership "
            "refresh, recency effect of views) is adopted from the observation, never guessed.", "DESIGN.md §5 C06"),
    "C07": ("exploration", "reference-model monitor with use-count intervals after every operation + statement-budget "
            "progress oracle",
            "Generated histories compared with a model that keeps [lo,hi] use counts per key: value of latest store, "
            "key set, victim can be a minimum, iteration order consistent with counts, views complete and terminate.",
            "Trusted: the interval model in vf/checks/c07.py. Histories with membership tests / views are checked "
            "with looser intervals; one third of the histories is exact.", "DESIGN.md §5 C07"),
    "C08": ("exploration", "reference-model monitor (list of node identities) + forward/backward link walk after "
            "every operation; differential payload classes",
            "Generated histories on the real list with five payload classes (distinct, equal, NaN, few-valued, "
            "__eq__-raising) and long equal runs; after each operation identity sequence, len, backward links and "
            "head/tail are compared with a payload-blind model.",
            "Trusted: python list as the model; operations are applied only to nodes of the list.", "DESIGN.md §5 C08"),
    "C09": ("exploration", "reference-model monitor (builtin set/dict) after construction and after every operation; "
            "foreign-type probes with state-unchanged oracle",
            "Generated initialisers (empty, unsorted, with repeats, mapping / pairs) and histories over mixed int/float "
            "keys are compared with set/dict after every step: strictly ascending iteration, content, len, membership, "
            "lookup; foreign probes must answer absent and change nothing.",
            "Trusted: builtin set/dict as the model, == as key identity. NaN keys excluded.", "DESIGN.md §5 C09"),
    "C10": ("exploration", "brute-force evaluation of the defining membership formulas over an enumerated span universe",
            "All ordered collections of <=2 spans over endpoints 0..3 with all 16 relation pairs (plus sampled longer "
            "ones) are run through construction, `in`, & | - ^ and all nine comparison operators and compared with a "
            "direct evaluation of the definitions.",
            "Trusted: the 20-line reference in vf/checks/c10.py. Result sets compared as multisets.", "DESIGN.md §5 C10"),
    "C11": ("exploration", "reference-model monitor (content.split) over generated read histories incl. interleaved "
            "iterators; differential buffered vs mmap",
            "Generated files (UTF-8, CR, long lines, no final newline, empty), all 8 variants, built/list/file indexes "
            "(subset, permutation), read histories with iterators advanced step by step between random reads; every "
            "read is compared with list semantics on the reference lines.",
            "Trusted: '\\n'-split reference; PYTHONUTF8=1; offsets given by the caller are valid line starts.",
            "DESIGN.md §5 C11"),
    "C12": ("exploration", "reference-model monitor (python list) after every edit; byte oracle on save(); "
            "SHA-256/mtime monitor on the source file",
            "Generated edit histories on the four mutable variants compared with a list after every operation "
            "(content, exception class, dirty rule), save() bytes checked for five line endings, saved file reopened "
            "with every variant, source file hash and mtime watched.",
            "Trusted: python list semantics; contents without line breaks.", "DESIGN.md §5 C12"),
    "C13": ("exploration", "round-trip and single-line oracles on generated records; record files compared with the "
            "record list; edit-save-reopen differential (buffered vs mmap)",
            "Tens of thousands of generated JSON/CSV/TSV records (alternating classes that share the CSV buffer) are "
            "round-tripped; record files are read by index/slice/iteration and mutable record files edited, saved and "
            "reopened with both back ends.",
            "Trusted: dataclass equality; generator domains as stated in the property. One known finding (adjacent "
            "surrogate halves in JSON strings) is listed in known_findings.json.", "DESIGN.md §5 C13"),
    "C15": ("exploration", "online trace checker over all n! arrival orders (n<=7) with seeded drain points; list-tail "
            "model for the ring buffer",
            "Every arrival order up to n=7 (8 in thorough) and sampled orders up to n=200 are fed to the real Buffer and "
            "PrintBuffer; the checker watches the emitted stream, waiting_for and len after every step, then "
            "flush/clear and a second round. CircularBuffer compared with the tail of the put history after every "
            "step with all indices probed.",
            "Trusted: the trace checker in vf/checks/c15.py; drains are complete iterations.", "DESIGN.md §5 C15"),
    "C16": ("exploration", "linear-scan reference over enumerated small interval sets and sampled larger ones",
            "All ordered selections of <=3 intervals over integer ends 0..4 (valid, touching, nested, degenerate, "
            "inverted) and sampled sets of 3-6 intervals: construction outcome vs disjointness definition, lookup / "
            "in / len / iteration vs linear scan for every grid point, midpoint and outside point.",
            "Trusted: the linear scan; binary-exact interval ends.", "DESIGN.md §5 C16"),
    "C17": ("exploration", "itertools.combinations brute force as reference over enumerated score vectors and all "
            "intervals",
            "All score vectors over 0..3 up to length 5 (6 thorough) with six monotone keys and every interval "
            "[a,b) up to total+2; sampled vectors up to length 9 (12).",
            "Trusted: brute force enumeration; order among equal keys not judged.", "DESIGN.md §5 C17"),
    "C20": ("fault_enumeration", "filesystem/descriptor leak monitor after every step + enumeration of every body "
            "position at which the with-body raises (and return/break exits); forked children around flush()",
            "Each generated history is executed once per fault position (exception after step j for every j), plus "
            "normal/return/break exits; directory listing, existence of every path ever returned, /proc/self/fd and "
            "handle.closed are checked after each step and after leaving the context; multi-process pools with "
            "children creating files before and after the parent's flush().",
            "Trusted: os.listdir / /proc/self/fd as ground truth; faults are raised in the body, not inside the "
            "pool's own methods.", "DESIGN.md §5 C20"),
    "C19": ("exploration", "reference-definition oracle over completely enumerated bounded domains",
            "All 3999 numerals, all sequences over a 3-letter alphabet up to the tier's length bound, all (n, batch) "
            "pairs up to the bound plus huge ranges are executed on the real helpers and compared with independent "
            "definitions.",
            "Trusted: the reference definitions in vf/checks/c19.py; exhaustive only inside the stated bounds.",
            "DESIGN.md §5 C19"),
}

PENDING_REASON = "check under construction in this session (claimed once it runs clean on the unchanged tree)"


def main():
    props = [json.loads(l) for l in open(os.path.join(HERE, "properties.jsonl"))]
    checks = []
    na = []
    for p in props:
        pid = p["id"]
        if pid in CHECKS and os.path.exists(os.path.join(HERE, "vf", "checks", pid.lower() + ".py")):
            cat, tech, text, note, ref = CHECKS[pid]
            checks.append({
                "property_id": pid,
                "quick_cmd": f"{PY} check.py {pid} --tier quick",
                "thorough_cmd": f"{PY} check.py {pid} --tier thorough",
                "evidence_file": f"/verif/evidence/{pid}.json",
                "replay_cmd_template": f"{PY} check.py {pid} --replay {{path}}",
                "engine": "vf",
                "level_claimed": {"category": cat, "text": text, "design_ref": ref},
                "level_note": note,
                "technique": tech,
            })
        else:
            na.append({"property_id": pid, "reason": NA.get(pid, PENDING_REASON)})
    m = {
        "version": 1,
        "setup_cmd": f"{PY} -c \"import sys; sys.path.insert(0, '/verif'); import vf.common, vf.instr, vf.seq, vf.pool_engine; "
                     f"print('vf ok')\"",
        "hooks": {
            "guard": "WINDPYUTILS_VERIF",
            "enable": "no source hooks exist: the checks import /repo's working tree (PYTHONPATH=/repo) and attach "
                      "sys.monitoring LINE callbacks to its code objects at run time",
            "baseline_off_cmd": "cd /repo && /venv/bin/python -m pytest -ra -q -p no:cacheprovider --timeout=900 "
                                "--continue-on-collection-errors",
            "source_commits": [],
            "add_only": True,
        },
        "engines": [{"name": "vf", "path": "/verif/vf", "serves_properties": [c["property_id"] for c in checks],
                     "kind_free_text": "runtime monitors: reference-model oracles, event-log checkers, sys.monitoring "
                                       "line hooks for step budgets / delay injection / failpoints, quiescence "
                                       "(deadlock) oracle, strace descriptor-ownership checker"}],
        "checks": checks,
        "not_applicable": na,
        "notes": "All checks are runtime monitors over real executions of /repo's working tree; see DESIGN.md.",
    }
    with open(os.path.join(HERE, "MANIFEST.json"), "w") as f:
        json.dump(m, f, indent=1)
    print(f"{len(checks)} checks, {len(na)} not claimed")


NA = {}

if __name__ == "__main__":
    main()
