#!/venv/bin/python
"""
Calibration of the monitors (not a registered check): applies a patch (a seeded change or one of
/verif/mutants/*.patch) to a scratch copy of /repo under /dev/shm, runs the given checks against the
copy (VERIF_REPO) and reports which of them raise a VIOLATION. The copy is removed afterwards;
/repo itself and /verif/evidence are not touched (evidence of selftest runs goes to the scratch dir).

    selftest.py <patch> C01 [C03 ...] [--tier quick] [--keep]
"""
import argparse
import os
import shutil
import subprocess
import sys
import tempfile

HERE = os.path.dirname(os.path.abspath(__file__))


def main():
    ap = argparse.ArgumentParser()
    ap.add_argument("patch")
    ap.add_argument("props", nargs="+")
    ap.add_argument("--tier", default="quick")
    ap.add_argument("--seed", default="0")
    a = ap.parse_args()
    base = "/dev/shm" if os.path.isdir("/dev/shm") else None
    work = tempfile.mkdtemp(prefix="vf-selftest-", dir=base)
    rc_all = {}
    try:
        repo = os.path.join(work, "repo")
        subprocess.run(["git", "clone", "-q", "/repo", repo], check=True)
        if a.patch != "none":
            r = subprocess.run(["git", "-C", repo, "apply", os.path.abspath(a.patch)])
            if r.returncode != 0:
                print("patch does not apply")
                return 2
        verif = os.path.join(work, "verif")
        shutil.copytree(HERE, verif, ignore=shutil.ignore_patterns(".git", "replays", "evidence", "__pycache__"))
        for prop in a.props:
            env = dict(os.environ, VERIF_REPO=repo, VERIF_SEED=a.seed)
            out = os.path.join(work, f"{prop}.out")
            with open(out, "w") as f:
                p = subprocess.run([sys.executable, os.path.join(verif, "check.py"), prop, "--tier", a.tier], env=env,
                                   cwd=verif, stdout=f, stderr=subprocess.STDOUT, start_new_session=True)
            txt = open(out).read()
            viol = [l for l in txt.splitlines() if l.startswith("VIOLATION") or l.strip().startswith("mechanism")]
            rc_all[prop] = p.returncode
            print(f"== {prop}: exit {p.returncode}")
            for l in viol[:8]:
                print("   " + l[:400])
            if p.returncode not in (0, 1):
                print(txt[-1500:])
    finally:
        shutil.rmtree(work, ignore_errors=True)
    return 0


if __name__ == "__main__":
    sys.exit(main())
